#!/bin/bash
# usage: tools/seed_test.sh <seed-name> <property> [tier]   -- apply seeded/<seed>/patch.diff to /repo,
# run the property's check, revert /repo, append the outcome to seeded/<seed>/detection.txt
S=$1; P=$2; T=${3:-quick}
cd /verif
if ! git -C /repo diff --quiet; then echo "/repo has local changes; refusing"; exit 9; fi
git -C /repo apply --whitespace=nowarn /verif/seeded/$S/patch.diff 2>/dev/null || { echo "patch does not apply"; exit 9; }
python3 check.py check $P --tier $T > /tmp/seed_$S_$P.out 2>&1; RC=$?
git -C /repo checkout -- .
NV=$(grep -c '^VIOLATION' /tmp/seed_$S_$P.out)
echo "$(date -u +%FT%TZ) check=$P tier=$T exit=$RC violations=$NV $(grep -m1 '^VIOLATION' /tmp/seed_$S_$P.out | sed 's/.*site=//' | cut -c1-160)" | tee -a seeded/$S/detection.txt
tail -1 /tmp/seed_$S_$P.out
