#!/usr/bin/env python3
"""profile one query: python3 tools/prof.py C04 step-trysend-n3-s0-h1 [maxsecs]"""
import sys; sys.path.insert(0,'/verif')
import check, importlib, os, shutil, subprocess, time
pid, name = sys.argv[1], sys.argv[2]
mx = float(sys.argv[3]) if len(sys.argv) > 3 else 300
mod=importlib.import_module('queries.'+pid)
q=[x for x in mod.queries() if x.name==name][0]
wd='/verif/build/probe'; shutil.rmtree(wd,ignore_errors=True); os.makedirs(wd); check.CACHE_DIR=wd
t0=time.time()
gb,err=check.build(q,wd,False); print('build %.1fs'%(time.time()-t0),err)
cmd=[c for c in check.cbmc_cmd(q,gb,False,q.solver or 'cadical') if c not in('--json-ui','--trace')]
print(' '.join(cmd))
t0=time.time()
p=subprocess.Popen(["timeout",str(int(mx))]+cmd,stdout=subprocess.PIPE,stderr=subprocess.STDOUT,text=True)
last=t0
for line in p.stdout:
    now=time.time()
    if (now-last>1.0 or os.environ.get('PROF_ALL') or not line.startswith(('Unwinding','Not unwinding','[','/','<','loop identifier'))) and line.strip():
        print('%6.1f (+%.1f) %s'%(now-t0, now-last, line.strip()[:160]))
    last=now
    if now-t0>mx: p.kill(); print('KILLED'); break
