#!/bin/bash
# stops background check runs (run_all / check.py / cbmc) started from this machine
for p in $(ps -eo pid,args | grep -E "tools/run_all\.sh|check\.py check|seed_test\.sh|benign_test\.sh" | grep -v grep | awk '{print $1}'); do
  [ "$p" != "$$" ] && kill -9 "$p" 2>/dev/null
done
killall -9 cbmc 2>/dev/null
sleep 1
ps -eo pid,args | grep -E "cbmc |check\.py check|tools/run_all" | grep -v grep | wc -l
