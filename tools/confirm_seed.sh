#!/bin/bash
# usage: confirm_seed.sh <worktree> <seed-name> <property>
# Confirms a sub-agent's seeded defect in its scratch worktree: tests pass with the change,
# demo fails with / passes without; then stores it under /verif/seeded/<seed-name>/.
set -u
WT=$1; NAME=$2; PROP=$3
LOG=/tmp/confirm_$NAME.log
exec >$LOG 2>&1
cd $WT || exit 9
git -C $WT diff -- src include > /tmp/confirm_$NAME.diff
[ -s /tmp/confirm_$NAME.diff ] || { echo "NO DIFF"; exit 9; }
bld() { cmake -G Ninja -S $WT -B $WT/_build -DCMAKE_BUILD_TYPE=RelWithDebInfo -DCMAKE_C_FLAGS=-Wno-error >/dev/null && cmake --build $WT/_build 2>&1 | tail -1; }
bld
true
true
TESTS_OK=$?
ctest --test-dir $WT/_build -j4 --timeout 900 >/tmp/confirm_$NAME.ctest 2>&1; CT=$?
(cd $WT/demo && timeout 600 sh ./run.sh >/tmp/confirm_$NAME.demo_with 2>&1); WITH=$?
git -C $WT apply -R /tmp/confirm_$NAME.diff || { echo "cannot revert"; exit 9; }
bld
(cd $WT/demo && timeout 600 sh ./run.sh >/tmp/confirm_$NAME.demo_without 2>&1); WITHOUT=$?
git -C $WT apply /tmp/confirm_$NAME.diff
echo "RESULT name=$NAME ctest_exit=$CT demo_with_change_exit=$WITH demo_without_change_exit=$WITHOUT"
if [ $CT -eq 0 ] && [ $WITH -ne 0 ] && [ $WITHOUT -eq 0 ]; then
  D=/verif/seeded/$NAME; rm -rf $D; mkdir -p $D
  cp /tmp/confirm_$NAME.diff $D/patch.diff
  rsync -a --exclude '*.o' --exclude 'demo_bin' --exclude '*.exe' --exclude '*.log' --exclude patch.diff $WT/demo/ $D/demo/
  find $D/demo -type f -size +200k -delete
  tail -3 /tmp/confirm_$NAME.ctest > $D/ctest_tail.txt
  echo "CONFIRMED $NAME"
else
  echo "NOT CONFIRMED $NAME"
fi
