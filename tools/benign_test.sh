#!/bin/bash
# usage: tools/benign_test.sh <patch.diff> <property> [tier]   -- apply a behaviour-preserving patch to /repo, run the
# property's check, revert /repo; prints one line (exit 0 expected: an exit 1 here is a false alarm of the check)
D=$1; P=$2; T=${3:-quick}
cd /verif
if ! git -C /repo diff --quiet; then echo "/repo has local changes; refusing"; exit 9; fi
git -C /repo apply $D || { echo "patch does not apply: $D"; exit 9; }
python3 check.py check $P --tier $T > /tmp/benign_$P.out 2>&1; RC=$?
git -C /repo checkout -- .
echo "$(date -u +%FT%TZ) patch=$D check=$P tier=$T exit=$RC $(grep -v '^ \|^{\|^}\|^\[' /tmp/benign_$P.out | grep "^$P $T" | tail -1) $(grep -m2 '^VIOLATION\|^BROKEN' /tmp/benign_$P.out | cut -c1-200 | tr '\n' ' ')"
