#!/bin/bash
# usage: tools/run_all.sh [quick|thorough] [ids...]   -- runs the checks one after the other, prints one line each
T=${1:-quick}; shift
IDS=${@:-C01 C02 C03 C04 C05 C06 C07 C08 C09 C10 C11 C12 C13 C14 C15 C16 C17 C18 C19 C20}
cd /verif
for p in $IDS; do
  s=$(date +%s)
  python3 check.py check $p --tier $T > /tmp/runall_$p.out 2>&1; rc=$?
  e=$(( $(date +%s) - s ))
  echo "$p exit=$rc wall=${e}s $(grep -v '^ \|^{\|^}\|^\[' /tmp/runall_$p.out | grep "^$p $T" | tail -1)"
done
