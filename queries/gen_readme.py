"""generate readme_route.h from /repo/README.md ('Message handling' tables) at run time"""
import os
import re


def gen_readme_route(wd, repo):
    txt = open(os.path.join(repo, "README.md")).read()

    def section(title):
        m = re.search(r"^####\s*" + re.escape(title) + r"\s*\n(.*?)(?=^#)", txt, re.S | re.M)
        if not m:
            raise RuntimeError("README.md: section %r not found" % title)
        names = re.findall(r"^\*\s*(MSG_[A-Z0-9_]+)", m.group(1), re.M)
        if not names:
            raise RuntimeError("README.md: section %r lists no message types" % title)
        return names
    out = ["/* generated from README.md */", "#include <stdint.h>", "#include <stdbool.h>"]
    for fn, title in (("readme_error_queue", "Error queue"), ("readme_message_queue", "Message queue")):
        out.append("static bool %s(uint8_t t) { switch (t) {" % fn)
        for n in section(title):
            out.append("\tcase %s:" % n)
        out.append("\t\treturn true;\n\tdefault: return false; } }")
    open(os.path.join(wd, "readme_route.h"), "w").write("\n".join(out) + "\n")
