from check import Q

META = {
    "functions": ["bidib_config_parse_single_board_features", "bidib_config_parse_board_config", "bidib_config_parse_aspect",
                  "bidib_config_parse_single_board_accessory", "bidib_config_parse_dcc_aspect_port", "bidib_config_parse_dcc_aspect",
                  "bidib_config_parse_single_dcc_accessory", "bidib_config_parse_single_board_peripheral",
                  "bidib_config_parse_single_board_segment", "bidib_config_parse_single_board_reverser",
                  "bidib_config_parse_single_board_setup", "bidib_config_parse_track_config",
                  "bidib_config_parse_single_train_calibration", "bidib_config_parse_single_train_peripheral",
                  "bidib_config_parse_single_train", "bidib_config_parse_train_config", "bidib_config_parse_scalar_then_section",
                  "bidib_string_to_byte/uid/dccaddr/port", "bidib_state_add_*", "bidib_state_free*", "bidib_start_pointer/bidib_stop failure path: C16"],
    "bounds": "per parser: every well-nested sequence of <= K yaml events (quick K=5..7, thorough K=8..10) with scalars from the "
              "section's keyword dictionary, well/ill-formed numbers, duplicates and arbitrary 2-character strings; parent "
              "record with 0 or 1 earlier element; then the caller's clean-up (bidib_state_free)",
    "stubs": ["libyaml -> event model env/yaml_model.c (scanner trusted)", "fopen -> succeeds or fails", "strtol model (bases 10/16)"],
    "outside": ["bytes -> events (libyaml)", "event sequences longer than K per entry", "scalar strings outside the dictionary "
                "longer than 2 characters"],
    "assumes": ["libyaml delivers well-nested events"],
}
COMMON = ["src/parser/bidib_config_parser.c", "src/state/bidib_state.c", "src/state/bidib_state_free.c",
          "src/state/bidib_state_getter.c"]
UNITS = {0: ["src/parser/bidib_config_parser_track.c", "src/parser/bidib_config_parser_train.c"],
         1: ["src/parser/bidib_config_parser_board.c", "src/parser/bidib_config_parser_train.c"],
         2: ["src/parser/bidib_config_parser_board.c", "src/parser/bidib_config_parser_track.c"]}
ENV = ["nd.c", "glib_model.c", "pthread_model.c", "libc_model.c", "log_model.c", "yaml_model.c"]
NAMES = {(0, 0): "board", (0, 1): "board-file", (1, 0): "aspect", (1, 1): "board-accessory", (1, 2): "dcc-aspect-port",
         (1, 3): "dcc-aspect", (1, 4): "dcc-accessory", (1, 5): "peripheral", (1, 6): "segment", (1, 7): "reverser",
         (1, 8): "board-setup", (1, 9): "track-file", (2, 0): "calibration", (2, 1): "train-peripheral", (2, 2): "train",
         (2, 3): "train-file"}
KQ = {"board": 7, "board-file": 6, "aspect": 6, "board-accessory": 6, "dcc-aspect-port": 6, "dcc-aspect": 6, "dcc-accessory": 6,
      "peripheral": 6, "segment": 7, "reverser": 6, "board-setup": 5, "track-file": 5, "calibration": 11, "train-peripheral": 6,
      "train": 6, "train-file": 5}


DICTS = {
    "board": ["id", "unique-id", "features", "number", "value", "b1", "0xDA000D680064EA", "0x05000D6B0083EC", "0x03", "1", "300"],
    "board-file": ["boards", "id", "unique-id", "b1", "0xDA000D680064EA", "0x05000D6B0083EC"],
    "aspect": ["id", "value", "n", "1", "300"],
    "board-accessory": ["id", "number", "aspects", "value", "initial", "n", "1", "300"],
    "dcc-aspect-port": ["port", "value", "0x01", "1", "300"],
    "dcc-aspect": ["id", "ports", "port", "value", "n", "1"],
    "dcc-accessory": ["id", "dcc-address", "extended-accessory", "aspects", "initial", "ports", "n", "0x0001", "1"],
    "peripheral": ["id", "number", "port", "aspects", "value", "initial", "n", "0x0001", "1", "300"],
    "segment": ["id", "address", "length", "n", "0x01", "300", "5cm"],
    "reverser": ["id", "cv", "n", "4"],
    "board-setup": ["id", "points-board", "points-dcc", "signals-board", "signals-dcc", "peripherals", "segments", "reversers", "b1", "zz"],
    "track-file": ["boards", "id", "b1", "segments", "address", "0x01"],
    "calibration": ["5", "126", "127", "x"],
    "train-peripheral": ["id", "bit", "initial", "hd", "4", "40", "1"],
    "train": ["id", "dcc-address", "dcc-speed-steps", "calibration", "peripherals", "t0", "t1", "0x0007", "0x0002", "126", "5"],
    "train-file": ["trains", "id", "t1", "dcc-address", "0x0002", "dcc-speed-steps", "126"],
}


def queries():
    qs = []
    for (u, e), n in sorted(NAMES.items()):
        for tier, k in (("quick", KQ[n]), ("thorough", KQ[n] + 3)):
            qs.append(Q("parse-%s-k%d" % (n, k), "C13_parse.c", COMMON + UNITS[u], env=ENV,
                        defs={"UNIT": u, "ENTRY": e, "VERIF_YAML_K": k, "VERIF_GARRAY_CAP": 12,
                              "DICT": ",".join('"%s"' % w for w in DICTS[n]),
                              "VERIF_YAML_WORDMAX": max(len(w) for w in DICTS[n])},
                        unwind=max(k + 3, len(DICTS[n]) + 2),
                        unwindset=["%s:%d" % (l, max(len(w) for w in DICTS[n] + ["cfg/"]) + 2) for l in
                                   ("strcmp.0", "strlen.0", "g_string_new.0", "strdup.0", "verif_yaml_word.1", "strtol.1")] +
                                  ["strtol.0:3", "bidib_string_to_uid.0:9"],
                        leak=True, tier=tier, timeout=None if tier == "quick" else 1750, required=(tier == "quick")))
    return qs
