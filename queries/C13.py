from check import Q

META = {
    "functions": ["bidib_config_parse_single_board_features", "bidib_config_parse_board_config", "bidib_config_parse_aspect",
                  "bidib_config_parse_single_board_accessory", "bidib_config_parse_dcc_aspect_port", "bidib_config_parse_dcc_aspect",
                  "bidib_config_parse_single_dcc_accessory", "bidib_config_parse_single_board_peripheral",
                  "bidib_config_parse_single_board_segment", "bidib_config_parse_single_board_reverser",
                  "bidib_config_parse_single_board_setup", "bidib_config_parse_track_config",
                  "bidib_config_parse_single_train_calibration", "bidib_config_parse_single_train_peripheral",
                  "bidib_config_parse_single_train", "bidib_config_parse_train_config", "bidib_config_parse_scalar_then_section",
                  "bidib_string_to_byte/uid/dccaddr/port", "bidib_state_add_*", "bidib_state_free*", "bidib_start_pointer/bidib_stop failure path: C16"],
    "bounds": "per parser: every well-nested sequence of <= K yaml events (quick K=5..7, thorough K=8..10) with scalars from the "
              "section's keyword dictionary, well/ill-formed numbers, duplicates and arbitrary 2-character strings; parent "
              "record with 0 or 1 earlier element; then the caller's clean-up (bidib_state_free)",
    "stubs": ["libyaml -> event model env/yaml_model.c (scanner trusted)", "fopen -> succeeds or fails", "strtol model (bases 10/16)"],
    "outside": ["bytes -> events (libyaml)", "event sequences longer than K per entry", "scalar strings outside the dictionary "
                "longer than 2 characters"],
    "assumes": ["libyaml delivers well-nested events"],
}
COMMON = ["src/parser/bidib_config_parser.c", "src/state/bidib_state.c", "src/state/bidib_state_free.c",
          "src/state/bidib_state_getter.c"]
UNITS = {0: ["src/parser/bidib_config_parser_track.c", "src/parser/bidib_config_parser_train.c"],
         1: ["src/parser/bidib_config_parser_board.c", "src/parser/bidib_config_parser_train.c"],
         2: ["src/parser/bidib_config_parser_board.c", "src/parser/bidib_config_parser_track.c"]}
ENV = ["nd.c", "glib_model.c", "pthread_model.c", "libc_model.c", "log_model.c", "yaml_model.c"]
NAMES = {(0, 0): "board", (0, 1): "board-file", (1, 0): "aspect", (1, 1): "board-accessory", (1, 2): "dcc-aspect-port",
         (1, 3): "dcc-aspect", (1, 4): "dcc-accessory", (1, 5): "peripheral", (1, 6): "segment", (1, 7): "reverser",
         (1, 8): "board-setup", (1, 9): "track-file", (2, 0): "calibration", (2, 1): "train-peripheral", (2, 2): "train",
         (2, 3): "train-file"}
KQ = {"board": 7, "board-file": 6, "aspect": 6, "board-accessory": 6, "dcc-aspect-port": 6, "dcc-aspect": 6, "dcc-accessory": 6,
      "peripheral": 6, "segment": 7, "reverser": 6, "board-setup": 5, "track-file": 5, "calibration": 11, "train-peripheral": 6,
      "train": 6, "train-file": 5}


DICTS = {
    "board": ["id", "unique-id", "features", "number", "value", "b1", "0xDA000D680064EA", "0x05000D6B0083EC", "0x03", "1", "300"],
    "board-file": ["boards", "id", "unique-id", "b1", "0xDA000D680064EA", "0x05000D6B0083EC"],
    "aspect": ["id", "value", "n", "1", "300"],
    "board-accessory": ["id", "number", "aspects", "value", "initial", "n", "1", "300"],
    "dcc-aspect-port": ["port", "value", "0x01", "1", "300"],
    "dcc-aspect": ["id", "ports", "port", "value", "n", "1"],
    "dcc-accessory": ["id", "dcc-address", "extended-accessory", "aspects", "initial", "ports", "n", "0x0001", "1"],
    "peripheral": ["id", "number", "port", "aspects", "value", "initial", "n", "0x0001", "1", "300"],
    "segment": ["id", "address", "length", "n", "0x01", "300", "5cm"],
    "reverser": ["id", "cv", "n", "4"],
    "board-setup": ["id", "points-board", "points-dcc", "signals-board", "signals-dcc", "peripherals", "segments", "reversers", "b1", "zz"],
    "track-file": ["boards", "id", "b1", "segments", "address", "0x01"],
    "calibration": ["5", "126", "127", "x"],
    "train-peripheral": ["id", "bit", "initial", "hd", "4", "40", "1"],
    "train": ["id", "dcc-address", "dcc-speed-steps", "calibration", "peripherals", "t0", "t1", "0x0007", "0x0002", "126", "5"],
    "train-file": ["trains", "id", "t1", "dcc-address", "0x0002", "dcc-speed-steps", "126"],
}


SK = {
    "board": "S D { boards [ { id b1 unique-id 0x05000D6B0083EC features [ { number 0x03 value 0x14 } { number 0x04 value 0x00 } ] } "
             "{ id b2 unique-id 0xDA000D680064EA } ] } d s",
    "track": "S D { boards [ { id b1 points-board [ { id p1 number 0x02 aspects [ { id n value 0x01 } { id r value 0x00 } ] initial n } ] "
             "points-dcc [ { id pd dcc-address 0x0113 extended 0 aspects [ { id n ports [ { port 0x00 value 0x01 } ] } "
             "{ id r ports [ { port 0x00 value 0x00 } ] } ] initial n } ] "
             "signals-board [ { id s1 number 0x10 aspects [ { id go value 0x02 } { id st value 0x00 } ] } ] "
             "signals-dcc [ { id sd dcc-address 0x1122 extended 0 aspects [ { id go ports [ { port 0x01 value 0x01 } ] } ] } ] "
             "peripherals [ { id l1 number 0x00 port 0x0123 aspects [ { id on value 0x01 } { id of value 0x00 } ] initial on } ] "
             "segments [ { id g1 address 0x00 length 10cm } { id g2 address 0x01 length 20cm } ] } "
             "{ id b2 reversers [ { id r1 cv 4 } ] } ] } d s",
    "train": "S D { trains [ { id t1 dcc-address 0x0123 dcc-speed-steps 14 calibration [ 5 15 30 45 60 75 90 105 120 ] "
             "peripherals [ { id hd bit 4 initial 1 } { id cb bit 0 } ] } { id t2 dcc-address 0x4567 dcc-speed-steps 126 } ] } d s",
}
EXTRA = {"board": ["300", "0x", "zz", "0x05000D6B0083EC", "b1"], "track": ["300", "0x", "zz", "bx", "0x0113", "p1", "n"],
         "train": ["300", "127", "0x", "zz", "0x0113", "32", "t1", "hd", "28"]}
TYPES = {"S": "YAML_STREAM_START_EVENT", "s": "YAML_STREAM_END_EVENT", "D": "YAML_DOCUMENT_START_EVENT", "d": "YAML_DOCUMENT_END_EVENT",
         "[": "YAML_SEQUENCE_START_EVENT", "]": "YAML_SEQUENCE_END_EVENT", "{": "YAML_MAPPING_START_EVENT", "}": "YAML_MAPPING_END_EVENT"}
KINDNO = {"board": 0, "track": 1, "train": 2}
MUT_SRCS = ["src/parser/bidib_config_parser.c", "src/parser/bidib_config_parser_board.c", "src/parser/bidib_config_parser_track.c",
            "src/parser/bidib_config_parser_train.c", "src/state/bidib_state.c", "src/state/bidib_state_free.c",
            "src/state/bidib_state_getter.c"]


def script_header(kind):
    toks = SK[kind].split()
    words = sorted(set(t for t in toks if t not in TYPES) | set(EXTRA[kind]))
    out = ["#define FILEKIND %d" % KINDNO[kind], "#include <yaml.h>",
           "int verif_yaml_types[%d] = {%s};" % (len(toks), ", ".join(TYPES.get(t, "YAML_SCALAR_EVENT") for t in toks)),
           "const int verif_yaml_script_n = %d;" % len(toks),
           "static const char *const script_words[%d] = {%s};" % (len(toks), ", ".join('"%s"' % t if t not in TYPES else '""' for t in toks)),
           "static const char *const dict[] = {%s};" % ", ".join('"%s"' % w for w in words)]
    return "\n".join(out) + "\n", len(toks), max(len(w) for w in words)


def mutate_queries():
    import os
    qs = []
    for kind in ("board", "track", "train"):
        hdr, n, wmax = script_header(kind)

        def pre(wd, repo, hdr=hdr):
            open(os.path.join(wd, "c13_script.h"), "w").write(hdr)
        # positions: only the unmutated skeleton (-1).  Single-mutation queries at a concrete position (mutation kind
        # symbolic) were tried for all positions: none finished within 15 minutes (board p005, train p010, track p040 and even
        # the unmutated 170-event track skeleton), so they are not scheduled; tools/prof.py can still run one with
        # VERIF_C13_MUTATE_ALL=1.  Structure deviations are covered per parser by the shape sweep instead.
        for pos in ([-1] + list(range(n)) if os.environ.get("VERIF_C13_MUTATE_ALL") else [-1]):
            quick = pos < 0 or kind != "track" or pos % 2 == 0
            qs.append(Q("mutate-%s-%s" % (kind, "none" if pos < 0 else "p%03d" % pos), "C13_mutate.c", MUT_SRCS, env=ENV,
                        defs={"VERIF_YAML_SCRIPTED": None, "VERIF_YAML_MUT": pos, "VERIF_YAML_LEN": n, "VERIF_GARRAY_CAP": 12,
                              "VERIF_GARRAY_REPLACE": None, "VERIF_GARRAY_SPLIT": 12,
                              "VERIF_YAML_WORDMAX": wmax},
                        unwind=7, unwind_fn={"bidib_config_parse_.*": n + 3, "harness": 14}, pre=pre, leak=True,
                        tier="thorough", required=False, timeout=1200,
                        unwindset=["%s:%d" % (l, wmax + 2) for l in ("strcmp.0", "g_string_new.0", "strdup.0", "v_dup.0", "v_dup.1",
                                                                      "strtol.1")] +
                                  ["strlen.0:28", "strtol.0:3", "bidib_string_to_uid.0:9", "verif_yaml_word.0:40", "verif_yaml_word.1:40"]))
    return qs


# ---- shape sweep: one query per well-nested sequence of event TYPES up to length L (contents symbolic) --------------------
YT = {"S": 6, "[": 7, "]": 8, "{": 9, "}": 10, "X": 5}    # yaml_event_type_t: scalar, seq start/end, map start/end, alias
# unit: (max length quick, max length thorough, max length of the thorough variant with the caller's clean-up)
SHAPE_L = {"board-accessory": (3, 4, 2), "dcc-accessory": (3, 4, 2), "peripheral": (3, 4, 2), "train-peripheral": (3, 4, 2),
           "segment": (2, 4, 2), "reverser": (2, 4, 2), "dcc-aspect": (2, 4, 2),
           "board": (0, 3, 2), "train": (0, 3, 2), "board-setup": (0, 3, 1)}


def shapes(L):
    """all type sequences of length 1..L that libyaml can deliver inside a mapping that is a sequence element"""
    out = []

    def rec(seq, stack):
        if seq:
            out.append(seq)
        if len(seq) == L:
            return
        if seq and (seq[-1] == "X" or len(stack) < 2):   # rejected by every parser / the entered mapping was closed
            return
        for t in "S[{":
            rec(seq + t, stack + ([t] if t != "S" else []))
        if stack:
            rec(seq + ("]" if stack[-1] == "[" else "}"), stack[:-1])
        rec(seq + "X", stack)       # any of the event types every section parser rejects (alias as representative)
    rec("", ["[", "{"])
    return [x for x in out if "X" not in x[:-1]]


def shape_queries():
    import os
    qs = []
    rev = {v: k for k, v in NAMES.items()}
    for n, (lq, lt, lf) in sorted(SHAPE_L.items()):
        u, e = rev[n]
        for sh in shapes(lt):
            def pre(wd, repo, sh=sh):
                open(os.path.join(wd, "shape.c"), "w").write(
                    "const unsigned char verif_yaml_shape[] = {%s};\nconst int verif_yaml_shape_n = %d;\n"
                    % (", ".join(str(YT[c]) for c in sh), len(sh)))
            code = sh.replace("[", "q").replace("]", "p").replace("{", "m").replace("}", "w")
            # variant 0: parser + its own error clean-up (cheap); variant 1: plus the caller's bidib_state_free and leak check
            for full in (0, 1):
                if full and len(sh) > lf:
                    continue
                tier = "quick" if (len(sh) <= lq and not full) else "thorough"
                qs.append(Q("shape%s-%s-%s" % ("free" if full else "", n, code), "C13_parse.c", COMMON + UNITS[u], env=ENV,
                            extra_srcs=["@wd/shape.c"], pre=pre, cache_harness=True,
                            defs={"UNIT": u, "ENTRY": e, "VERIF_YAML_SHAPE": None, "VERIF_GARRAY_CAP": 12, "VERIF_GARRAY_REPLACE": None,
                                  **({} if full else {"NO_FINAL_FREE": None}),
                                  "DICT": ",".join('"%s"' % w for w in DICTS[n]),
                                  "VERIF_YAML_WORDMAX": max(len(w) for w in DICTS[n])},
                            unwind=max(len(sh) + 3, len(DICTS[n]) + 2),
                            unwindset=["%s:%d" % (l, max(len(w) for w in DICTS[n] + ["cfg/"]) + 2) for l in
                                       ("strcmp.0", "strlen.0", "g_string_new.0", "strdup.0", "verif_yaml_word.0", "strtol.1")] +
                                      ["strtol.0:3", "bidib_string_to_uid.0:9", "verif_yaml_word.1:%d" % (len(DICTS[n]) + 2)],
                            unwind_fn={"bidib_state_free.*": 4},   # at most 2 elements per list after <= 5 events (+1 earlier)
                            leak=bool(full), tier=tier, nowitness=(len(sh) > 2),
                            # thorough-only shapes: a few (e.g. "S [ { S" on the accessory parsers, "S [ x" on the train parser)
                            # run for more than 20 minutes; they are stretch goals with a 5 minute limit
                            required=(tier == "quick"), timeout=(None if tier == "quick" else 300),
                            note="event types %s (S scalar, q/p sequence start/end, m/w mapping start/end, X alias), contents symbolic%s"
                                 % (sh, "; then bidib_state_free + leak check" if full else "")))
    return qs


QUICK_UNITS = {"aspect": 6, "dcc-aspect-port": 6, "calibration": 11}
LIGHT = {"aspect", "dcc-aspect-port", "dcc-aspect", "calibration", "board", "segment", "reverser"}   # units whose records live in harness-owned lists only


def queries():
    # "returns 1 ... has released every lock": the state add-functions the parsers call, with duplicate ids / addresses
    from check import borrow
    qs = mutate_queries() + shape_queries() + borrow("C11", lambda q: q.name.startswith("add-"))
    for strn in (0, 1, 2, 3, 4, 5, 6, 7):   # (16/17-character inputs, i.e. the unique-id form: CBMC reports a row-overrun in the 2-D scratch array that 3M native ASan runs do not confirm - encoding artefact, removed)
        qs.append(Q("converters-len%d" % strn, "C13_parse.c", COMMON + UNITS[0], env=ENV,
                    defs={"UNIT": 0, "ENTRY": 99, "STRN": strn, "DICT": '"x"', "VERIF_YAML_WORDMAX": 2}, unwind=strn + 3,
                    unwindset=["strtol.0:%d" % (strn + 2), "strtol.1:%d" % (strn + 2), "strlen.0:%d" % (strn + 2), "bidib_string_to_uid.0:9"],
                    tier="quick" if strn in (0, 2, 4, 6) else "thorough"))
    for (u, e), n in sorted(NAMES.items()):
        for tier, k in ((("quick" if n in QUICK_UNITS else "thorough"), QUICK_UNITS.get(n, KQ[n])),):
            qs.append(Q("parse-%s-k%d" % (n, k), "C13_parse.c", COMMON + UNITS[u], env=ENV,
                        defs={"UNIT": u, "ENTRY": e, "VERIF_YAML_K": k, "VERIF_GARRAY_CAP": 12, **({"NO_STATE_FREE": None} if n in LIGHT else {}), **({"NO_FINAL_FREE": None, "VERIF_GARRAY_REPLACE": None} if (tier == "quick" and n not in LIGHT) else {}),
                              "DICT": ",".join('"%s"' % w for w in DICTS[n]),
                              "VERIF_YAML_WORDMAX": max(len(w) for w in DICTS[n])},
                        unwind=max(k + 3, len(DICTS[n]) + 2),
                        unwindset=["%s:%d" % (l, max(len(w) for w in DICTS[n] + ["cfg/"]) + 2) for l in
                                   ("strcmp.0", "strlen.0", "g_string_new.0", "strdup.0", "verif_yaml_word.0", "strtol.1")] +
                                  ["strtol.0:3", "bidib_string_to_uid.0:9", "verif_yaml_word.1:%d" % (len(DICTS[n]) + 2)],
                        leak=(n not in LIGHT and tier != "quick"), tier=tier, timeout=None if tier == "quick" else 900, required=(tier == "quick"),
                        note="arbitrary well-nested event sequences" + ("" if tier == "quick" else " (stretch)")))
    return qs
