from check import Q

META = {
    "functions": ["every public getter of include/highlevel/bidib_highlevel_getter.h and every bidib_free_* function",
                  "bidib_get_state + copy helpers", "bidib_state_free", "bidib_state_get_*_ref lookups"],
    "bounds": "builder world (1 board with one entity of each kind, 2 segments with 0..2 addresses, 1 train with 2 functions, "
              "booster / track output present or not), arbitrary contents; id argument = any string of <=2 characters, or NULL",
    "stubs": ["logging"],
    "outside": ["longer lists (copy loops over more elements)", "ids longer than 2 characters"],
    "assumes": ["value fields behind a false 'known/available' flag may be indeterminate; flags, counts and pointers may not"],
}
SRCS = ["src/highlevel/bidib_highlevel_getter.c", "src/state/bidib_state_getter.c", "src/state/bidib_state.c",
        "src/state/bidib_state_free.c"]
UW = ["strcmp.0:4", "strlen.0:9", "sb_str.0:4", "g_string_new.0:4", "strdup.0:9", "memcpy.0:40", "sb_train.0:10", "seq.0:9",
      "eq_list.0:5", "eq_pos.0:5", "eq_segdata.0:4", "eq_traindata.0:4"]
NAMES = {0: "point_state", 1: "signal_state", 2: "peripheral_state", 3: "segment_state", 4: "reverser_state", 5: "uniqueid",
         6: "uniqueid_by_nodeaddr", 7: "nodeaddr", 8: "nodeaddr_by_uniqueid", 9: "board_id", 10: "boards", 11: "boards_connected",
         12: "board_connected", 13: "board_features", 14: "board_points", 15: "board_signals", 16: "board_peripherals",
         17: "board_segments", 18: "board_reversers", 19: "connected_points", 20: "connected_signals",
         21: "connected_peripherals", 22: "connected_segments", 23: "connected_reversers", 24: "connected_boosters",
         25: "boosters", 26: "track_outputs", 27: "connected_track_outputs", 28: "booster_state", 29: "track_output_state",
         30: "trains", 31: "trains_on_track", 32: "train_peripherals", 33: "train_id", 34: "train_dcc_addr", 35: "train_state",
         36: "train_peripheral_state", 37: "train_position", 38: "train_speed_step", 39: "train_speed_kmh", 40: "train_on_track",
         41: "point_aspects", 42: "signal_aspects", 43: "peripheral_aspects"}
TAKES_ID = {0, 1, 2, 3, 4, 5, 7, 12, 13, 14, 15, 16, 17, 18, 28, 29, 32, 34, 35, 36, 37, 38, 39, 40, 41, 42, 43}


def queries():
    qs = []
    for g, n in sorted(NAMES.items()):
        qs.append(Q("get-%s" % n, "C17_getters.c", SRCS, defs={"GETTER": g, "VERIF_GARRAY_CAP": 9}, unwind=6, unwindset=UW,
                    tier="quick"))
        if g in TAKES_ID:
            qs.append(Q("get-%s-null" % n, "C17_getters.c", SRCS, defs={"GETTER": g, "VERIF_GARRAY_CAP": 9, "IDNULL": None},
                        unwind=6, unwindset=UW, tier="quick" if g < 6 or g in (35, 37) else "thorough"))
    qs.append(Q("snapshot", "C17_getters.c", SRCS, defs={"GETTER": 50, "VERIF_GARRAY_CAP": 9}, unwind=6, unwindset=UW))
    return qs
