from check import Q

META = {
    "functions": ["bidib_start_pointer", "bidib_stop", "bidib_init_threads", "bidib_init_rwlocks", "bidib_init_mutexes",
                  "bidib_set_lowlevel_debug_mode", "bidib_state_reset_train_params"],
    "bounds": "2 (thorough 3) consecutive sessions, each with arbitrary mode, flush interval 0..255, config valid/invalid, "
              "interface answering/silent, optional start-while-running, and a stop-while-stopped after each; zero-speed step: "
              "2 boards x 2 trains with arbitrary connected/class bits",
    "stubs": ["all callees of start/stop -> recording stubs (event log)", "pthread_create/join -> handle monitor, threads not run"],
    "outside": ["what the threads do while running (C10/C12/C01)", "bidib_start_serial (device I/O)",
                "release of the configuration state: bidib_state_free (C13/C17)",
                "packet capacity surviving a stop is recorded as an observation (static of send.c, not reachable from this unit)"],
    "assumes": [],
}


def queries():
    qs = []
    for n in (2, 3):
        qs.append(Q("sessions-%d" % n, "C16_life.c", [], defs={"MODE": 0, "SESSIONS": n}, unwind=14, tier="quick" if n == 2 else "thorough",
                    unwindset=["is_shutdown.0:13"]))
    qs.append(Q("zero-speed", "C16_life.c", ["src/state/bidib_state.c", "src/state/bidib_state_getter.c"],
                defs={"MODE": 1, "VERIF_GARRAY_CAP": 5}, unwind=5,
                unwindset=["strcmp.0:4", "strlen.0:4", "sb_str.0:4", "g_string_new.0:4", "sb_train.0:10"]))
    for nheld in (1, 2):
        qs.append(Q("release-pending-%d" % nheld, "C16_life.c", ["src/transmission/bidib_transmission_responses.c",
                    "src/transmission/bidib_transmission_util.c", "src/transmission/bidib_transmission_message_string_mapping.c"],
                    defs={"MODE": 2, "NHELD": nheld, "VERIF_QCAP": 5, "VERIF_HCAP": 3, "VERIF_KEY4": None}, unwind=8, leak=True,
                    unwindset=["memcpy.0:6", "strcmp.0:5"], tier="quick" if nheld == 2 else "thorough"))
    return qs
