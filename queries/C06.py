from check import Q
from queries.gen_readme import gen_readme_route

META = {
    "functions": ["bidib_handle_received_message", "bidib_message_queue_add", "bidib_uplink_queue_add",
                  "bidib_uplink_error_queue_add", "bidib_uplink_intern_queue_add", "bidib_read_message",
                  "bidib_read_error_message", "bidib_read_intern_message", "bidib_read_message_from_queue",
                  "bidib_log_sys_error", "bidib_log_boost_stat_error", "bidib_log_boost_stat_okay"],
    "bounds": "routing: one message, all 256 type codes, address depth 0..3 (shape), 9 (5, 12) data bytes, all byte "
              "values, debug and normal mode; queue step: fill level 0/1/127/128 then 1-2 adds and reads",
    "stubs": ["all bidib_state_* setters, bidib_send_*, bidib_flush, bidib_node_update_stall -> recording stubs",
              "bidib_state_get_board_ref_by_nodeaddr -> arbitrary board or NULL"],
    "outside": ["messages shorter than the fixed layout of their type (C12)", "more than 2 adds beyond the bound",
                "reader/receiver races: lock discipline only (each queue is touched only with ITS mutex held: container tags, also C10)"],
    "assumes": ["README.md 'Message handling' tables are the routing specification (parsed at run time)"],
}
SRCS = ["src/transmission/bidib_transmission_util.c", "src/transmission/bidib_transmission_message_string_mapping.c",
        "src/state/bidib_state.c"]


def queries():
    qs = []
    for depth in range(4):
        for dlen in (9,) if depth else (9, 5, 12):
            qs.append(Q("route-depth%d-dl%d" % (depth, dlen), "C06_route.c", SRCS,
                        defs={"DEPTH": depth, "DLEN": dlen, "VERIF_QCAP": 3}, unwind=dlen + 20, leak=True,
                        pre=gen_readme_route, tier="quick" if dlen == 9 and depth < 2 else "thorough"))
    RB = "src/transmission/bidib_transmission_receive.c"
    for errq in (0, 1):
        # literal bound 128: length and the two ends of the queue only
        for fill, adds in ((126, 3), (127, 1), (127, 2), (128, 1), (128, 2)):
            quick = (errq == 0 and (fill, adds) in ((127, 2), (128, 1))) or (errq == 1 and (fill, adds) == (128, 2))
            qs.append(Q("queue-%s-fill%d-add%d" % ("err" if errq else "msg", fill, adds), "C06_queue.c", SRCS,
                        defs={"FILL": fill, "ADDS": adds, "ERRQ": errq, "VERIF_QCAP": 131, "ENDS_ONLY": None, "READS": 1, "VERIF_LOCK_TAGS": None},
                        unwind=133, cbmc=["--object-bits", "12"], tier="quick" if quick else "thorough"))
        # same logic at a scaled bound: full content, full read-back
        for qsz in (2, 3, 4):
            for fill in range(0, qsz + 1):
                for adds in (1, 2, 3):
                    quick = (errq == 0 and qsz == 3 and adds == 2) or (errq == 1 and qsz == 3 and adds == 2 and fill in (0, 3))
                    qs.append(Q("queue-%s-size%d-fill%d-add%d" % ("err" if errq else "msg", qsz, fill, adds), "C06_queue.c",
                                SRCS, defs={"FILL": fill, "ADDS": adds, "ERRQ": errq, "VERIF_QCAP": qsz + 3, "READS": qsz + 2, "VERIF_LOCK_TAGS": None},
                                unwind=20, leak=True, tier="quick" if quick else "thorough",
                                scaled=[(RB, r"#define QUEUE_SIZE 128", "#define QUEUE_SIZE %d" % qsz)],
                                note="queue bound scaled to %d" % qsz))
    return qs
