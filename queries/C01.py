from check import Q

META = {
    "functions": ["bidib_flush_impl", "bidib_flush", "bidib_add_to_buffer", "bidib_state_packet_capacity",
                  "bidib_buffer_message_with_data", "bidib_buffer_message_without_data", "bidib_buffer_message",
                  "bidib_crc_array[]"],
    "bounds": "flush framing: payload 1..12 bytes (quick) / ..40 (thorough) on the real file, all byte values, "
              "plus staging buffer scaled to 8/9/10/13 bytes so the split branches are reached; batching: <=3 (4) "
              "messages of concrete lengths, any capacity 0..255; layout: data 0..16 (..121) bytes, depth 0..3",
    "stubs": ["write callback -> wire monitor (arbitrary index K)", "bidib_flush_impl -> packet recorder (batching/layout "
              "harnesses only)", "bidib_node_try_send -> capture + nondet verdict", "sequence number source -> nondet"],
    "outside": ["literal 312-byte staging split with fully symbolic payloads > 40 bytes (verified at scaled size)",
                "real thread interleavings (lock-granularity schedules only, see C05)"],
    "assumes": ["address stack index 3 is 0 (documented precondition)"],
}
SEND = []
CRC = ["src/transmission/bidib_transmission_crc.c"]
AUX = "src/transmission/bidib_transmission_send.c"
UTIL = ["src/transmission/bidib_transmission_util.c"]


def queries():
    qs = [Q("crctab", "C01_flush.c", CRC, defs={"CRCTAB": None}, unwind=9, native=True)]
    for n in list(range(1, 13)) + [16, 24, 32, 40]:
        quick = n <= 12
        qs.append(Q("flush-n%d" % n, "C01_flush.c", CRC, defs={"N": n}, unwind=n + 2,
                    unwindset=["ref_crc8_byte.0:9"], tier="quick" if quick else "thorough",
                    required=n <= 32, solver="cadical" if n <= 12 else "kissat", native=True,
                    timeout=None if quick else 1700))
    for aux in (8, 9, 10, 13):
        for n in range(1, 11):
            qs.append(Q("flush-aux%d-n%d" % (aux, n), "C01_flush.c", CRC, defs={"N": n}, unwind=n + 2,
                        unwindset=["ref_crc8_byte.0:9"], native=False,
                        scaled=[(AUX, r"#define PACKET_BUFFER_AUX_SIZE 312", "#define PACKET_BUFFER_AUX_SIZE %d" % aux)],
                        tier="quick" if aux in (9, 10) and n >= 3 else "thorough",
                        note="staging buffer scaled to %d bytes" % aux))
    # ---- H2 batching (flush_impl replaced by the packet recorder) ----
    R = [["--replace-calls", "bidib_flush_impl:verif_flush_stub"]]
    shapes_q = [(4,), (64,), (65,), (61, 4), (60, 5), (61, 5), (56, 7), (4, 4, 4), (5, 56, 4), (30, 30, 5), (128, 4),
                (4, 128), (256,), (4, 256), (100, 100), (200, 56)]
    shapes_t = [(62, 4), (63, 4), (59, 5), (60, 4), (4, 60), (20, 20, 20, 5), (20, 20, 20, 4), (16, 16, 16, 16),
                (7, 7, 7, 7), (250, 5), (251, 5), (252, 4), (127, 127), (128, 128), (4, 4, 4, 4), (255, 4)]
    for tier, shapes in (("quick", shapes_q), ("thorough", shapes_t)):
        for sh in shapes:
            for chg in ([-1] if tier == "quick" and len(sh) != 2 else [-1] + list(range(1, len(sh)))):
                d = {"MODE": 0, "M": len(sh), "CAPCHG": chg}
                for i, l in enumerate(sh):
                    d["L%d" % (i + 1)] = l
                qs.append(Q("batch-%s%s" % ("_".join(map(str, sh)), "" if chg < 0 else "-chg%d" % chg),
                            "C01_batch.c", UTIL, defs=d, unwind=max(max(sh) + 2, 12), instr=R, tier=tier,
                            unwindset=["harness.2:%d" % (max(sh) + 1)]))
    # ---- H3 layout ----
    for dl in [-1] + list(range(0, 17)):
        qs.append(Q("layout-d%s" % ("none" if dl < 0 else dl), "C01_batch.c", UTIL, defs={"MODE": 1, "DLEN": dl},
                    unwind=max(dl + 8, 12), instr=R, tier="quick" if dl <= 8 else "thorough"))
    for dl in (32, 64, 100, 120, 121):
        for dep in range(4):
            qs.append(Q("layout-d%d-depth%d" % (dl, dep), "C01_batch.c", UTIL,
                        defs={"MODE": 1, "DLEN": dl, "ADEPTH": dep}, unwind=dl + 8, instr=R,
                        tier="quick" if (dl, dep) in ((121, 3), (120, 0)) else "thorough", timeout=None))
    return qs
