from check import Q

META = {
    "functions": ["bidib_state_add_board", "bidib_state_add_train", "bidib_state_add_dcc_point_state", "bidib_state_add_dcc_signal_state",
                  "bidib_state_add_board_point_state", "bidib_state_add_board_signal_state", "bidib_state_add_peripheral_state",
                  "bidib_state_add_reverser_state", "bidib_state_add_segment_state", "bidib_state_dcc_addr_in_use",
                  "bidib_config_parse_aspect", "bidib_config_parse_single_train_calibration", "bidib_config_parse_single_train_peripheral",
                  "bidib_string_to_byte", "all enumeration getters of bidib_highlevel_getter.c"],
    "bounds": "uniqueness: builder world + one new entity with arbitrary <=2-character id / unique id / dcc address; record parsers: "
              "concrete skeleton, scalar values from a 22-word numeric vocabulary (well-formed dec/hex, boundary, malformed) and an "
              "arbitrary 2-character id, one earlier sibling; getters: builder world with arbitrary connected / class bits",
    "stubs": ["libyaml -> scripted events (mode B)", "strtol model", "sections query: the five record parsers -> recorders"],
    "outside": ["whole-file acceptance with nested records (does not finish; see C13 mutation queries in the thorough tier)",
                "board / accessory / peripheral / segment / reverser record parsers' own duplicate checks beyond the add-functions "
                "(numbers, ports, addresses, CVs per board): thorough tier only via C13 units",
                "more than one earlier sibling"],
    "assumes": ["track state booster / track-output entries correspond to the class bits (established by the board parser)"],
}
ENV = ["nd.c", "glib_model.c", "pthread_model.c", "libc_model.c", "log_model.c", "yaml_model.c"]
ST = ["src/state/bidib_state.c", "src/state/bidib_state_getter.c", "src/state/bidib_state_free.c", "src/highlevel/bidib_highlevel_getter.c"]
PS = ["src/parser/bidib_config_parser.c", "src/state/bidib_state.c", "src/state/bidib_state_getter.c", "src/state/bidib_state_free.c"]
UW = ["strcmp.0:4", "strlen.0:4", "sb_str.0:4", "g_string_new.0:4", "strdup.0:4", "sb_train.0:10", "list_is.0:3"]


def queries():
    qs = []
    for w in range(5):
        qs.append(Q("unique-%d" % w, "C14_accept.c", ST, defs={"MODE": 0, "WHICH": w, "VERIF_GARRAY_CAP": 9}, unwind=6, unwindset=UW))
    qs.append(Q("getters-reflect", "C14_accept.c", ST, defs={"MODE": 1, "VERIF_GARRAY_CAP": 9}, unwind=6, unwindset=UW))
    yd = {"VERIF_YAML_SCRIPTED": None, "VERIF_YAML_WORDMAX": 6, "VERIF_GARRAY_CAP": 12}
    uw = ["strcmp.0:9", "strlen.0:9", "g_string_new.0:9", "strdup.0:9", "v_dup.0:9", "v_dup.1:9", "strtol.0:3", "strtol.1:9"]
    qs.append(Q("record-aspect", "C14_accept.c", PS + ["src/parser/bidib_config_parser_board.c", "src/parser/bidib_config_parser_train.c"],
                env=ENV, defs=dict(yd, MODE=2, REC=0, VERIF_YAML_LEN=5), unwind=14, unwindset=uw))
    for ncal in (8, 9, 10):
        qs.append(Q("record-calibration-%d" % ncal, "C14_accept.c", PS + ["src/parser/bidib_config_parser_board.c", "src/parser/bidib_config_parser_track.c"],
                    env=ENV, defs=dict(yd, MODE=2, REC=1, NCAL=ncal, VERIF_YAML_LEN=ncal + 1), unwind=14, unwindset=uw))
    qs.append(Q("record-train-function", "C14_accept.c", PS + ["src/parser/bidib_config_parser_board.c", "src/parser/bidib_config_parser_track.c"],
                env=ENV, defs=dict(yd, MODE=2, REC=2, VERIF_YAML_LEN=7), unwind=14, unwindset=uw))
    # section routing of the per-board record of the track file: every sequence of section keys (seven names + an unknown word)
    # of length 1 and 2 (thorough: 3), record parsers stubbed; key words concrete per query (the parser's state machine
    # depends on them), board id word chosen by the solver
    YT = {"S": 6, "[": 7, "]": 8, "{": 9, "}": 10}
    import itertools
    for nsec in (1, 2, 3):
        sh = "SS" + "S[{}]" * nsec + "}"
        for keys in itertools.product(range(8), repeat=nsec):
            if nsec == 3 and not (keys[0] < keys[1]):      # thorough: third section after every accepted pair
                continue
            for bw in ((8, 9) if nsec == 1 else (8,)):       # board id word: "b1" (configured) / "zz" (not in the board file)
                words = [7, bw] + sum(([9 if k == 7 else k, -1, -1, -1, -1] for k in keys), []) + [-1]

                def pre(wd, repo, sh=sh, words=words):
                    import os
                    open(os.path.join(wd, "shape.c"), "w").write(
                        "const unsigned char verif_yaml_shape[] = {%s};\nconst int verif_yaml_shape_n = %d;\n"
                        "const signed char verif_yaml_shape_word[] = {%s};\n"
                        % (", ".join(str(YT[c]) for c in sh), len(sh), ", ".join(str(w) for w in words)))
                qs.append(Q("sections-%s%s" % ("".join(str(k) for k in keys), "" if bw == 8 else "-unknownboard"), "C14_sections.c",
                            PS + ["src/parser/bidib_config_parser_board.c", "src/parser/bidib_config_parser_train.c"],
                            env=ENV, extra_srcs=["@wd/shape.c"], pre=pre, cache_harness=True,
                            defs={"NSEC": nsec, "VERIF_YAML_SHAPE": None, "VERIF_YAML_SHAPE_WORDS": None, "VERIF_YAML_DICT_ONLY": None,
                                  "VERIF_YAML_WORDMAX": 14, "VERIF_GARRAY_CAP": 4, "VERIF_GARRAY_REPLACE": None},
                            unwind=len(sh) + 3, unwindset=["strcmp.0:15", "strlen.0:15", "g_string_new.0:15", "verif_yaml_word.0:16", "verif_yaml_word.1:12",
                                                           "harness.0:%d" % (nsec + 2), "harness.1:%d" % (nsec + 2)],
                            instr=[["--replace-calls", "bidib_config_parse_single_board_accessory:stub_board_accessory"],
                                   ["--replace-calls", "bidib_config_parse_single_dcc_accessory:stub_dcc_accessory"],
                                   ["--replace-calls", "bidib_config_parse_single_board_peripheral:stub_peripheral"],
                                   ["--replace-calls", "bidib_config_parse_single_board_segment:stub_segment"],
                                   ["--replace-calls", "bidib_config_parse_single_board_reverser:stub_reverser"]],
                            tier="quick" if nsec <= 2 else "thorough", nowitness=(nsec == 2 and keys[0] % 3 != 0) or nsec == 3,
                            note="section keys %s (0 points-board .. 6 reversers, 7 unknown word)" % (keys,)))
    return qs
