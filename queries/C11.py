import copy

from check import Q

META = {
    "functions": ["all public high-level setters/admin commands (via C09 harness)", "all public getters (via C17 harness)",
                  "all bidib_state_* setters (via C07/C08 harnesses)", "bidib_state_add_* (configuration time)",
                  "bidib_handle_received_message with the real setters and senders", "bidib_node_try_send / _state_update / "
                  "_update_stall, bidib_add_to_buffer, bidib_flush, bidib_read_*_message", "lock monitor env/pthread_model.c"],
    "bounds": "every entry point on the builder world with arbitrary contents and arbitrary <=2-character ids; dispatcher: one "
              "message per type-code block, 9 data bytes, normal and debug mode",
    "stubs": ["bidib_flush_impl -> mutex assertion", "write callback unused"],
    "outside": ["the order is checked against the ranks in env/pthread_model.c (derived from bidib_init_mutexes and the comments in "
                "bidib_highlevel_util.c); real blocking/timing is not modelled", "bidib_start/bidib_stop paths: C16"],
    "assumes": ["recursive read acquisition of the same rwlock by one thread is legal (glibc default, counted separately)"],
}
TX = ["src/transmission/bidib_transmission_send.c", "src/transmission/bidib_transmission_util.c",
      "src/transmission/bidib_transmission_crc.c", "src/transmission/bidib_transmission_node_states.c",
      "src/transmission/bidib_transmission_responses.c"]
ST = ["src/state/bidib_state_getter.c", "src/state/bidib_state_setter.c", "src/state/bidib_state.c", "src/state/bidib_state_free.c",
      "src/highlevel/bidib_highlevel_getter.c"]
LL = ["src/lowlevel/bidib_lowlevel_%s.c" % n for n in ("accessory", "booster", "feature", "firmware", "occupancy",
                                                        "portconfig", "system", "track", "userconfig")]
HL = ["src/highlevel/bidib_highlevel_setter.c", "src/highlevel/bidib_highlevel_admin.c", "src/highlevel/bidib_highlevel_action_ids.c"]
RX = ["src/transmission/bidib_transmission_receive.c", "src/transmission/bidib_transmission_message_string_mapping.c"]
R = [["--replace-calls", "bidib_flush_impl:verif_flush_stub"]]
UW = ["strcmp.0:4", "strlen.0:4", "sb_str.0:4", "g_string_new.0:4", "strdup.0:4", "sb_train.0:10", "memcpy.0:14",
      "bidib_build_message_hex_string.0:15", "bidib_buffer_message_with_data.0:6", "bidib_buffer_message_with_data.1:12",
      "bidib_buffer_message_without_data.0:6", "bidib_extract_address.0:6", "bidib_extract_address.1:6",
      "bidib_state_cs_drive.1:6", "bidib_state_cs_drive.2:6", "bidib_state_cs_drive.3:6", "bidib_state_cs_drive.4:10",
      "bidib_state_cs_drive.5:10", "g_hash_table_lookup.0:5", "g_hash_table_insert.0:5", "g_hash_table_insert.1:5",
      "g_hash_table_new.0:5", "harness.0:10", "bidib_first_data_byte_index.0:12", "strndup.0:9", "strndup.1:9",
      "bidib_state_bm_multiple.0:130", "bidib_state_boost_diagnostic.0:6", "bidib_send_bm_mirror_multiple.0:18"]
D = {"VERIF_GARRAY_CAP": 9, "VERIF_KEY4": None, "VERIF_QCAP": 4}


def queries():
    qs = []
    for w in range(7):
        qs.append(Q("add-%d" % w, "C11_misc.c", ST, defs=dict(D, MODE=0, WHICH=w), unwind=6, unwindset=UW))
    for w in range(4):
        qs.append(Q("admin-%d" % w, "C11_misc.c", ST + TX + LL + HL, defs=dict(D, MODE=1, WHICH=w), unwind=6, unwindset=UW, instr=R))
    blocks = [(0x00, 0x7F), (0x80, 0x8F), (0x90, 0x9F), (0xA0, 0xAF), (0xB0, 0xBF), (0xC0, 0xCF), (0xD0, 0xDF), (0xE0, 0xFF)]
    for lo, hi in blocks:
        qs.append(Q("dispatch-%02x_%02x" % (lo, hi), "C11_misc.c", ST + TX + LL + HL + RX,
                    defs=dict(D, MODE=2, TYPE_LO=lo, TYPE_HI=hi), unwind=6, unwindset=UW, instr=R, timeout=1750,
                    tier="thorough", required=False, checks=False,
                    note="composed dispatcher + real handlers; the quick tier covers the same ground by C06 (dispatcher with "
                         "handler stubs asserting the locks held at each call) + C07/C08 (each handler under exactly those locks)"))
    qs.append(Q("receiver-side", "C11_misc.c", ST + TX + RX + LL + HL, defs=dict(D, MODE=3), unwind=6, unwindset=UW, instr=R))
    # the harnesses of the other properties end with the same lock-monitor assertions: re-run them under C11
    import queries.C09 as c09, queries.C17 as c17, queries.C07 as c07, queries.C08 as c08, queries.C06 as c06
    for mod, pick in ((c09, lambda q: q.tier == "quick"), (c07, lambda q: q.tier == "quick"), (c08, lambda q: q.tier == "quick"),
                      (c06, lambda q: q.tier == "quick" and q.name.startswith("route")),
                      (c17, lambda q: q.tier == "quick" and not q.name.endswith("-null"))):
        for q in mod.queries():
            if "[borrowed" in (q.note or ""):
                continue
            q2 = copy.copy(q)
            q2.name = mod.__name__.split(".")[-1] + "-" + q.name
            q2.tier = "quick" if (pick(q) and mod in (c09, c07)) else "thorough"
            q2.nowitness = q.nowitness or (q2.tier != "quick")
            qs.append(q2)
    # error returns of the feedback handlers on malformed payloads (C12 harnesses end with the same lock assertions)
    from check import borrow
    qs += borrow("C12", lambda q: q.name.startswith("vendor-any") or q.name.startswith("dispatch-"))
    return qs
