from check import Q

META = {
    "functions": ["bidib_state_init_allocation_table", "bidib_state_query_nodetab", "bidib_state_node_new", "bidib_state_node_lost",
                  "bidib_state_is_subnode", "bidib_state_get_board_ref_by_uniqueid", "bidib_extract_msg_type",
                  "bidib_first_data_byte_index", "dispatch of MSG_NODE_NEW/LOST incl. acknowledgement: C06 route harness",
                  "commands address the current node address of a connected board: C09"],
    "bounds": "trees of <=4 nodes over 3 levels (root; root+2 leaves; root-interface-leaf; root-interface(leaf)+leaf) with arbitrary "
              "local addresses and unique ids against 2 configured boards; one optional table-change notice at any of the first 6 "
              "requests; one NODE_NEW/LOST on an arbitrary 2-board state; is_subnode over all address pairs",
    "stubs": ["simulated bus answering the real NODETAB requests", "usleep no-op", "bidib_flush no-op"],
    "outside": ["a bus that never answers (enumeration does not terminate: liveness under a silent bus is not claimed)",
                "more than 4 nodes / more than one table change"],
    "assumes": ["boards start disconnected (parser / bidib_state_reset)", "unique ids in the tree are pairwise distinct"],
}
SRCS = ["src/state/bidib_state_getter.c", "src/transmission/bidib_transmission_util.c"]
UW = ["strcmp.0:4", "strlen.0:4", "sb_str.0:4", "g_string_new.0:4", "mk_msg.0:4", "mk_msg.1:13", "harness.0:5", "harness.1:5",
      "bidib_state_query_nodetab.0:6", "bidib_state_query_nodetab.1:6", "bidib_state_query_nodetab.2:8",
      "bidib_state_init_allocation_table.0:4", "bidib_state_init_allocation_table.1:4", "bidib_state_init_allocation_table.2:4",
      "bidib_extract_msg_type.0:6", "bidib_first_data_byte_index.0:12", "g_queue_find_custom.0:5"]


def queries():
    qs = []
    for tree in range(4):
        for inj in (-1, 1, 2, 3, 4, 5):
            quick = True
            qs.append(Q("enumerate-tree%d-inject%s" % (tree, "none" if inj < 0 else inj), "C15_nodetab.c", SRCS,
                        defs={"MODE": 0, "TREE": tree, "INJECT": inj, "VERIF_GARRAY_CAP": 5, "VERIF_QCAP": 4},
                        unwind=8, unwindset=UW, tier="quick" if quick else "thorough"))
    # identity map concrete (node index -> configured board): one hex digit per node, node 0 (root) lowest: 0x1000 = A unknown interface with board b1 (node C) below it
    for tree, maps in ((2, (0x1000, 0x2010, 0x0010, 0x1020)), (3, (0x1200, 0x2010, 0x0120, 0x1000))):
        for mp in maps:
            qs.append(Q("enumerate-tree%d-map%04x" % (tree, mp), "C15_nodetab.c", SRCS,
                        defs={"MODE": 0, "TREE": tree, "INJECT": -1, "MATCH": "0x%x" % mp, "VERIF_GARRAY_CAP": 5, "VERIF_QCAP": 4},
                        unwind=8, unwindset=UW, note="which tree node is which configured board is concrete (unknown interface above a configured board etc.)"))
    qs.append(Q("node-new-lost", "C15_nodetab.c", SRCS, defs={"MODE": 1, "VERIF_GARRAY_CAP": 5, "VERIF_QCAP": 4}, unwind=6, unwindset=UW))
    qs.append(Q("is-subnode", "C15_nodetab.c", SRCS, defs={"MODE": 2, "VERIF_GARRAY_CAP": 5, "VERIF_QCAP": 4}, unwind=6, unwindset=UW))
    return qs
