from check import Q

META = {
    "functions": ["bidib_send_sys_reset", "bidib_state_set_board_features", "bidib_state_set_initial_values", "bidib_switch_point",
                  "bidib_set_signal", "bidib_set_peripheral", "bidib_set_train_peripheral", "bidib_set_train_speed",
                  "bidib_send_feature_set", "message construction (bidib_buffer_message_with_data)",
                  "node enumeration: C15; bidib_set_track_output_state_all: C09; bidib_communication_works: start path C16"],
    "bounds": "order: the whole bidib_send_sys_reset step sequence; features: 2 boards (2 + 1 features, arbitrary numbers/values, "
              "each connected or not, boards answering with the requested or another value); initial values: one initial point, "
              "signal, peripheral and train function on the builder world with arbitrary configuration values and connectivity, "
              "one or two track outputs (the second, on board b2, first in the list and connected or not)",
    "stubs": ["order: callees of bidib_send_sys_reset -> recorders", "bidib_node_try_send -> capture", "simulated bus for FEATURE answers",
              "usleep no-op"],
    "outside": ["more boards / initial values (loops over longer lists)", "a board that never answers a feature setting (the library "
                "waits forever: liveness under a silent node is not claimed)"],
    "assumes": ["configuration validity as in C09"],
}
TX = ["src/transmission/bidib_transmission_send.c", "src/transmission/bidib_transmission_util.c", "src/transmission/bidib_transmission_crc.c"]
ST = ["src/state/bidib_state.c", "src/state/bidib_state_getter.c", "src/state/bidib_state_setter.c", "src/state/bidib_state_free.c",
      "src/highlevel/bidib_highlevel_getter.c"]
LL = ["src/lowlevel/bidib_lowlevel_%s.c" % n for n in ("accessory", "booster", "feature", "firmware", "occupancy",
                                                        "portconfig", "system", "track", "userconfig")]
HL = ["src/highlevel/bidib_highlevel_setter.c", "src/highlevel/bidib_highlevel_action_ids.c"]
UW = ["strcmp.0:4", "strlen.0:4", "sb_str.0:4", "g_string_new.0:4", "strdup.0:4", "sb_train.0:10", "msg_is.0:4", "msg_is.1:11",
      "bidib_node_try_send.0:5", "bidib_node_try_send.1:17", "bidib_build_message_hex_string.0:17", "harness.0:18",
      "bidib_buffer_message_with_data.0:6", "bidib_buffer_message_with_data.1:12", "bidib_extract_address.0:6", "bidib_extract_address.1:6",
      "bidib_state_cs_drive.1:6", "bidib_state_cs_drive.2:6", "bidib_state_cs_drive.3:6", "bidib_state_cs_drive.4:10",
      "bidib_state_cs_drive.5:10", "bidib_extract_msg_type.0:6", "bidib_first_data_byte_index.0:8"]
R = [["--replace-calls", "bidib_flush_impl:verif_flush_stub"]]


def queries():
    return [Q("order", "C20_startup.c", [], defs={"MODE": 0}, unwind=18),
            Q("features", "C20_startup.c", ST + TX + ["src/lowlevel/bidib_lowlevel_feature.c"], defs={"MODE": 1, "VERIF_GARRAY_CAP": 9},
              unwind=6, unwindset=UW, instr=R),
            ] + [Q("initial-values-bits%d_%d" % (a, b), "C20_startup.c", ST + TX + LL + HL,
                   defs={"MODE": 2, "VERIF_GARRAY_CAP": 9, "SB_FBIT0": a, "SB_FBIT1": b}, unwind=6, unwindset=UW,
                   tier="quick" if (a, b) in ((0, 4),) else "thorough") for a, b in ((4, 8), (0, 4), (8, 11), (12, 15), (16, 23), (24, 31), (3, 17))
            ] + [Q("initial-values-two-outputs-bits%d_%d" % (a, b), "C20_startup.c", ST + TX + LL + HL,
                   defs={"MODE": 2, "VERIF_GARRAY_CAP": 9, "SB_FBIT0": a, "SB_FBIT1": b, "SB_TRACK_OUTPUT2": 1}, unwind=6, unwindset=UW,
                   tier="quick" if (a, b) == (4, 8) else "thorough", note="second track output (board b2, connected or not) listed before b1's")
                 for a, b in ((4, 8), (3, 17))]
