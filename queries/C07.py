from check import Q

META = {
    "functions": ["bidib_state_cs_state", "bidib_state_cs_drive_ack", "bidib_state_cs_accessory_ack", "bidib_state_cs_drive",
                  "bidib_state_cs_accessory_manual", "bidib_state_cs_accessory", "bidib_state_lc_stat", "bidib_state_lc_wait",
                  "bidib_state_bm_confidence", "bidib_state_bm_current", "bidib_state_bm_speed", "bidib_state_bm_dyn_state",
                  "bidib_state_boost_state", "bidib_state_boost_diagnostic", "bidib_state_accessory_state", "bidib_state_vendor",
                  "bidib_dcc_speed_to_lib_format", "bidib_lib_speed_to_dcc_format", "bidib_booster_normal_to_simple",
                  "bidib_bm_confidence_to_level", "bidib_state_get_*_ref* lookups",
                  "dispatcher field extraction: see C06 (route harness checks every handler's arguments)"],
    "bounds": "one message of each state-bearing kind with arbitrary field bytes applied to an ARBITRARY pre-state of the "
              "builder world (1 board with one entity of each kind, 2 segments, 1 train with 2 functions, booster, track "
              "output); diagnostic lists of 1..3 (key,value) pairs in any order",
    "stubs": ["logging"],
    "outside": ["more than one entity per kind (lookup loops over longer lists)", "BM_OCC/FREE/MULTIPLE/ADDRESS: C08",
                "NODE_NEW/LOST: C15"],
    "assumes": ["pre-state satisfies the configuration uniqueness invariants (C14)"],
}
SRCS = ["src/state/bidib_state_setter.c", "src/state/bidib_state_getter.c", "src/state/bidib_state.c",
        "src/state/bidib_state_free.c", "src/highlevel/bidib_highlevel_getter.c"]
KINDS = [(0, "cs_state"), (1, "cs_drive_ack"), (2, "cs_accessory_ack"), (3, "cs_drive"), (4, "cs_accessory_manual"),
         (16, "cs_accessory"), (5, "lc_stat"), (6, "lc_wait"), (8, "bm_confidence"), (9, "bm_current"), (10, "bm_speed"),
         (11, "bm_dyn_state"), (12, "boost_stat"), (14, "accessory_state"), (15, "vendor"), (90, "conversions")]
UW = ["strcmp.0:4", "strlen.0:4", "sb_str.0:4", "g_string_new.0:4", "strdup.0:4", "strndup.0:4", "sb_train.0:10", "streq.0:4",
      "bidib_state_cs_drive.1:6", "bidib_state_cs_drive.2:6", "bidib_state_cs_drive.3:6",
      "bidib_state_cs_drive.4:10", "bidib_state_cs_drive.5:10", "harness.0:8", "harness.1:8", "strndup.0:4", "strndup.1:4"]


def _c08():
    # "occupancy, detected decoder addresses" of the C07 statement are the C08 step harness (real bm_occ / bm_address /
    # bm_multiple against a reference on an arbitrary pre-state)
    from check import borrow
    return borrow("C08", lambda q: q.name in ("occ", "address-0", "address-1"))


def queries():
    qs = [Q("fold-%s" % n, "C07_fold.c", SRCS, defs={"KIND": k, "VERIF_GARRAY_CAP": 9}, unwind=5, unwindset=UW)
          for k, n in KINDS]
    for np in (1, 2, 3):
        qs.append(Q("fold-boost_diagnostic-pairs%d" % np, "C07_fold.c", SRCS,
                    defs={"KIND": 13, "NPAIRS": np, "VERIF_GARRAY_CAP": 9}, unwind=8, unwindset=UW,
                    tier="quick" if np <= 2 else "thorough"))
    return qs + _c08()
