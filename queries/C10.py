import copy

from check import Q, REPO
from queries.gen_contracts import generate, static_flags

META = {
    "functions": ["34 internal accessors with a documented lock precondition (headers parsed at run time, see queries/gen_contracts.py)",
                  "all public commands (C09 harness), getters (C17 harness), feedback handlers (C07/C08 harnesses) as callers",
                  "node table / uplink queue containers (glib model lock tags) under the C03/C04/C06 step harnesses",
                  "send-buffer statics: flush stub asserts bidib_send_buffer_mutex in C01/C05/C19"],
    "bounds": "every caller harness listed above on the builder world with arbitrary contents / ids; sequential obligations only",
    "stubs": ["lock monitor env/pthread_model.c", "contract shims (generated)", "container lock tags in env/glib_model.c"],
    "outside": ["data races under real parallel execution and arbitrary preemption are INFERRED from these lock-discipline "
                "obligations by the standard lockset argument, not encoded (CBMC's thread semantics rejects this code)",
                "plain reads through the g_array_index macro are visible only via the accessor contracts",
                "bidib_state_set_initial_values documents an unlocked read of track_outputs (start/reset path, excluded from concurrent use by the README)"],
    "assumes": ["a getter result is a state that existed at one instant if every lock it takes is acquired once and held over all reads "
                "of the structure it guards (acquisition counters of the monitor)"],
}


def queries():
    qs = []
    flags = static_flags(REPO)

    def pre_for(orig):
        def pre(wd, repo):
            if orig:
                orig(wd, repo)
            generate(wd, repo)
        return pre
    import queries.C09 as c09, queries.C17 as c17, queries.C07 as c07, queries.C08 as c08
    for mod, quick in ((c09, True), (c07, True), (c17, False), (c08, False)):
        for q in mod.queries():
            if q.name == "position-getter" or "conversions" in q.name or "[borrowed" in (q.note or ""):
                continue
            q2 = copy.copy(q)
            q2.name = "contracts-" + mod.__name__.split(".")[-1] + "-" + q.name
            q2.pre = pre_for(q.pre)
            q2.src_flags = {k: v for k, v in flags.items() if k in q.srcs}
            q2.extra_srcs = ["@wd/c10_shims.c"]
            q2.defs = dict(q.defs, VERIF_CONTRACTS=None)
            q2.tier = "quick" if (quick and q.tier == "quick") else "thorough"
            q2.nowitness = q.nowitness or (q2.tier != "quick")
            q2.instr = list(q.instr)
            q2.unwindset = list(q.unwindset) + ["real_" + u for u in q.unwindset]
            qs.append(q2)
    # ---- obligation 2: container accesses under the guarding lock (glib model tags) ----
    import queries.C03 as c03, queries.C04 as c04, queries.C06 as c06
    for mod, pick in ((c03, lambda q: True), (c04, lambda q: q.tier == "quick"), (c06, lambda q: "queue" in q.name and "size3" in q.name)):
        for q in mod.queries():
            if "[borrowed" in (q.note or ""):
                continue
            q2 = copy.copy(q)
            q2.name = "tags-" + mod.__name__.split(".")[-1] + "-" + q.name
            q2.defs = dict(q.defs, VERIF_LOCK_TAGS=None)
            q2.tier = "quick" if (pick(q) and q.tier == "quick" and mod is not c03) or (mod is c03 and q.name in ("step0-r1-h1", "step1-r2-h1", "step1-r3-h2")) else "thorough"
            q2.nowitness = q.nowitness or (q2.tier != "quick")
            qs.append(q2)
    return qs
