"""C10 obligation 1: turn every documented lock precondition ("Shall only be called with X acquired") of the internal
headers into a checked shim.  Regenerated from /repo's headers on every run.

For every contracted function f defined in translation unit T:
  c10_rename_<T>.h   #define f real_f            (force-included into T only: the definition is renamed)
  c10_shims.c        RET f(PARAMS) { assert(lock(s) held); return real_f(ARGS); }   (all external callers go through it)
"""
import glob
import os
import re

LOCKS = {"bidib_trains_rwlock": "L_TRAINS_RW", "bidib_boards_rwlock": "L_BOARDS_RW",
         "trackstate_accessories_mutex": "L_ACCESSORIES", "trackstate_peripherals_mutex": "L_PERIPHERALS",
         "trackstate_segments_mutex": "L_SEGMENTS", "trackstate_reversers_mutex": "L_REVERSERS",
         "trackstate_trains_mutex": "L_TS_TRAINS", "trackstate_boosters_mutex": "L_BOOSTERS",
         "trackstate_track_outputs_mutex": "L_TRACK_OUTPUTS", "bidib_node_state_table_mutex": "L_NODE_TABLE",
         "bidib_send_buffer_mutex": "L_SEND_BUFFER"}
HEADERS = ["src/state/bidib_state_getter_intern.h", "src/state/bidib_state_setter_intern.h", "src/state/bidib_state_intern.h",
           "src/highlevel/bidib_highlevel_intern.h", "src/lowlevel/bidib_lowlevel_intern.h"]


def contracts(repo):
    out = []
    for h in HEADERS:
        txt = open(os.path.join(repo, h)).read()
        for m in re.finditer(r"/\*\*(.*?)\*/\s*([A-Za-z_][\w \*]*?[\s\*])(\w+)\s*\(([^;{]*?)\)\s*;", txt, re.S):
            doc, ret, name, params = m.group(1), m.group(2).strip(), m.group(3), " ".join(m.group(4).split())
            if "hall only be called with" not in doc:
                continue
            part = doc[doc.index("hall only be called with"):]
            part = re.split(r"@param|Note|\n\s*\*\s*\n", part)[0]
            locks = []
            for lk, lid in LOCKS.items():
                mm = re.search(re.escape(lk) + r"\s*(>=\s*read|\(write\)|>=read)?", part)
                if mm:
                    locks.append((lk, lid, "read" if (mm.group(1) and "read" in mm.group(1)) else "any"))
            if locks:
                out.append({"header": h, "ret": ret, "name": name, "params": params, "locks": locks})
    return out


def defining_file(repo, name):
    for f in glob.glob(os.path.join(repo, "src", "*", "*.c")):
        if re.search(r"^[A-Za-z_][\w \*]*?[\s\*]" + re.escape(name) + r"\s*\(", open(f).read(), re.M):
            return os.path.relpath(f, repo)
    return None


def generate(wd, repo):
    cs = contracts(repo)
    if len(cs) < 20:
        raise RuntimeError("C10: only %d lock contracts found in the internal headers" % len(cs))
    by_file = {}
    shim = ['#include "verif.h"', "#include <glib.h>", "#include <pthread.h>"] + ['#include "%s"' % h for h in HEADERS] + [
        "int verif_contract_checks;"]
    for c in cs:
        f = defining_file(repo, c["name"])
        if f is None:
            continue
        by_file.setdefault(f, []).append(c["name"])
        params = c["params"]
        if params in ("void", ""):
            args = ""
        else:
            args = ", ".join(re.match(r".*?(\w+)(\[\])?$", p.strip()).group(1) for p in params.split(","))
        cond = " && ".join("verif_held(%s)" % lid for _, lid, _ in c["locks"])
        text = " and ".join(lk for lk, _, _ in c["locks"])
        shim.append("%s real_%s(%s);" % (c["ret"], c["name"], params))
        body = "\tverif_contract_checks++;\n\t__CPROVER_assert(%s, \"CONTRACT: %s called without %s held\");\n" % (cond, c["name"], text)
        # read-modify-write atomicity on the train state (env/pthread_model.c): the read accessor marks the epoch of
        # exclusive protection, the write-back compares it
        if c["name"] == "bidib_state_get_train_state_ref":
            body += "\tverif_rmw_mark();\n"
        if c["name"] == "bidib_state_cs_drive":
            body += "\tverif_rmw_check();\n"
        if c["ret"] == "void":
            body += "\treal_%s(%s);\n" % (c["name"], args)
        else:
            body += "\treturn real_%s(%s);\n" % (c["name"], args)
        shim.append("%s %s(%s) {\n%s}" % (c["ret"], c["name"], params, body))
    open(os.path.join(wd, "c10_shims.c"), "w").write("\n".join(shim) + "\n")
    flags = {}
    for f, names in by_file.items():
        hn = "c10_rename_%s.h" % os.path.basename(f).replace(".", "_")
        open(os.path.join(wd, hn), "w").write("".join("#define %s real_%s\n" % (n, n) for n in names))
        flags[f] = ["-include", os.path.join("@wd", hn)]
    return cs, flags


def static_flags(repo):
    """src_flags can be computed without writing files (paths use @wd)"""
    flags = {}
    for c in contracts(repo):
        f = defining_file(repo, c["name"])
        if f:
            hn = "c10_rename_%s.h" % os.path.basename(f).replace(".", "_")
            flags[f] = ["-include", os.path.join("@wd", hn)]
    return flags
