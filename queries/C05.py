from check import Q

META = {
    "functions": ["bidib_node_state_get_and_incr_send_seqnum", "bidib_get_and_incr_seqnum", "bidib_node_state_table_reset",
                  "bidib_buffer_message_without_data", "bidib_buffer_message_with_data", "bidib_buffer_message",
                  "bidib_node_try_send", "bidib_add_to_buffer"],
    "bounds": "counter: all 255 values x 2 nodes; schedule: 2 virtual sender threads (+1 receiver step in thorough) "
              "running the real send functions, context switches at every lock acquisition of the outer thread at "
              "which it holds no lock (stack-shaped interleavings), counters symbolic (covers the 255->1 wrap)",
    "stubs": ["bidib_flush_impl -> no-op asserting the mutex (send buffer = wire log)", "clock constant"],
    "outside": ["more than 3 virtual threads", "non-nested interleavings (A1 B1 A2 B2 ...) and preemption inside a critical "
                "section: inferred from lock discipline (C10), not encoded", "deferred messages (C03/C04 establish FIFO release)"],
    "assumes": ["both messages fit the node's response budget"],
}
SRCS = ["src/transmission/bidib_transmission_util.c", "src/transmission/bidib_transmission_responses.c"]
R = [["--replace-calls", "bidib_flush_impl:verif_flush_stub"]]


def queries():
    qs = [Q("counter", "C05_seq.c", SRCS, defs={"MODE": 0, "VERIF_HCAP": 3}, unwind=6, instr=R)]
    for same in (1, 0):
        for wd in (0, 1):
            for dx in (0, 1, 2):
                quick = (wd == 0 or dx == 1)
                qs.append(Q("sched-same%d-data%d-depth%d" % (same, wd, dx), "C05_seq.c", SRCS,
                            defs={"MODE": 1, "SAME": same, "WITHDATA": wd, "DEPTHX": dx, "VERIF_YIELD": None,
                                  "VERIF_HCAP": 3, "VERIF_KEY4": None},
                            unwind=8, unwindset=["bidib_build_message_hex_string.0:24", "memcpy.0:24"], instr=R, tier="quick" if quick else "thorough"))
    # numbers are assigned at submission; the wire order per node equals the submission order only if a message is never
    # admitted past older held ones: the admission step of C03 (real bidib_node_try_send on an arbitrary node state)
    from check import borrow
    qs += borrow("C03", lambda q: q.name.startswith("step0-"))
    return qs
