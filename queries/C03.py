from check import Q

META = {
    "functions": ["bidib_node_try_send", "bidib_node_state_update", "bidib_node_try_queued_messages",
                  "bidib_node_state_add_response", "bidib_node_state_add_message", "bidib_node_query",
                  "bidib_node_stall_ready", "bidib_response_info[]"],
    "bounds": "inductive step: 0..3 outstanding requests, 0..2 held messages, 1 node, any types/times; "
              "history: k<=4 events from the real initial state",
    "stubs": ["bidib_add_to_buffer -> wire log", "bidib_flush -> counter", "time() -> harness clock"],
    "outside": ["queues longer than 3/2", "more than one node (C04)", "real thread interleavings (C05/C10)"],
    "assumes": ["pre-state satisfies INV: counter == sum of sizes <= 48, creation times ordered and <= now, "
                "oldest held message does not fit"],
}
SRCS = ["src/transmission/bidib_transmission_responses.c"]


def queries():
    qs = []
    for step in (0, 1):
        for nresp in (0, 1, 2, 3):
            for nheld in (0, 1, 2):
                if nheld > 0 and nresp == 0:
                    continue  # INV: something held implies budget in use
                qs.append(Q("step%d-r%d-h%d" % (step, nresp, nheld), "C03_step.c", SRCS,
                            defs={"STEP": step, "NRESP": nresp, "NHELD": nheld},
                            unwind=6, native=True))
    return qs
