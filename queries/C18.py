"""C18: one generated harness per public bidib_send_* function.

The prototypes and the documented ranges ('range A...B', 'max N' in the @param text) are parsed from
/repo/include/lowlevel/*.h at run time; a prototype that is neither covered by the default rule nor by a
row of SPECIAL makes the check build fail (exit 2), so new API is not silently skipped.
"""
import glob
import os
import re

from check import Q, REPO

META = {
    "functions": ["every public bidib_send_* of include/lowlevel/*.h except bidib_send_sys_reset (C20)",
                  "bidib_buffer_message_with_data", "bidib_buffer_message_without_data", "bidib_buffer_message",
                  "bidib_extract_address"],
    "bounds": "every scalar parameter over its full C type, node address bytes arbitrary (depth 0..3), variable-length "
              "payloads with concrete sizes 0..max+1 (shape) and arbitrary contents in exact-size heap buffers",
    "stubs": ["bidib_node_try_send -> capture (message bytes, type, address), answers 'deferred'",
              "sequence number source -> constant 7", "optimistic state update of cs_drive / cs_accessory -> no-op (C09)"],
    "outside": ["bidib_send_sys_reset's startup dialogue (C20)", "payload sizes between the listed shapes"],
    "assumes": ["validity predicates are the ranges documented in the headers ('range A...B', 'max N', 'Must be divisible "
                "by 8', 'last byte must be 0xFF') and, where the header is silent, the value sets of bidib_messages.h"],
}
SRCS = ["src/transmission/bidib_transmission_send.c", "src/transmission/bidib_transmission_util.c",
        "src/transmission/bidib_transmission_crc.c"] + ["src/lowlevel/bidib_lowlevel_%s.c" % n for n in
        ("accessory", "booster", "feature", "firmware", "occupancy", "portconfig", "system", "track", "userconfig")]

# struct flattening in wire order (from the BiDiB message layouts; dcc addresses travel as addrl, addrh only)
STRUCTS = {
    "t_bidib_unique_id_mod": ["class_id", "class_id_ext", "vendor_id", "product_id1", "product_id2", "product_id3", "product_id4"],
    "t_bidib_dcc_address": ["addrl", "addrh"],
    "t_bidib_cs_drive_mod": ["dcc_address.addrl", "dcc_address.addrh", "dcc_format", "active", "speed", "function1",
                             "function2", "function3", "function4"],
    "t_bidib_cs_accessory_mod": ["dcc_address.addrl", "dcc_address.addrh", "data", "time"],
    "t_bidib_cs_pom_mod": ["dcc_address.addrl", "dcc_address.addrh", "addrxl", "addrxh", "mid", "opcode", "cv_addrl", "cv_addrh",
                           "cv_addrx", "data0", "data1", "data2", "data3"],
    "t_bidib_bin_state_mod": ["dcc_address.addrl", "dcc_address.addrh", "bin_numl", "bin_numh", "data"],
    "t_bidib_cs_prog_mod": ["opcode", "cv_addrl", "cv_addrh", "data"],
    "t_bidib_macro_params": ["data0", "data1", "data2", "data3", "data4", "data5"],
    "t_bidib_port_query_params": ["select0", "select1", "range.start0", "range.start1", "range.end0", "range.end1"],
    "t_bidib_port_query_address_range": ["start0", "start1", "end0", "end1"],
}
# every byte-sized leaf of a struct type (so that all of them become symbolic)
LEAVES = dict(STRUCTS)
LEAVES["t_bidib_cs_drive_mod"] = STRUCTS["t_bidib_cs_drive_mod"] + ["dcc_address.type"]
LEAVES["t_bidib_cs_accessory_mod"] = STRUCTS["t_bidib_cs_accessory_mod"] + ["dcc_address.type"]
LEAVES["t_bidib_cs_pom_mod"] = STRUCTS["t_bidib_cs_pom_mod"] + ["dcc_address.type"]
LEAVES["t_bidib_bin_state_mod"] = STRUCTS["t_bidib_bin_state_mod"] + ["dcc_address.type"]
LEAVES["t_rcplus_tid"] = ["cid.mun_0", "cid.mun_1", "cid.mun_2", "cid.mun_3", "cid.mid", "sid"]
LEAVES["t_rcplus_unique_id"] = ["mun_0", "mun_1", "mun_2", "mun_3", "mid"]
STRUCTS["t_rcplus_tid"] = LEAVES["t_rcplus_tid"]
STRUCTS["t_rcplus_unique_id"] = LEAVES["t_rcplus_unique_id"]

# name -> dict(type=MSG_.., data=[C exprs] (None: default flattening), valid=C expr (None: no claim on rejection),
#              ptr={param: size expr}, sizes={param: [shape values]}, prefix=[consts before default data])
S = {}


def sp(name, **kw):
    S[name] = kw


sp("accessory_para_set_opmode", type="MSG_ACCESSORY_PARA_SET", data=["anum", "BIDIB_ACCESSORY_PARA_OPMODE", "anum_op"],
   valid="anum <= 127 && anum_op <= 127")
sp("accessory_para_set_startup", type="MSG_ACCESSORY_PARA_SET", data=["anum", "BIDIB_ACCESSORY_PARA_STARTUP", "startup_behaviour"],
   valid="anum <= 127 && (startup_behaviour <= 127 || startup_behaviour >= 254)")
sp("accessory_para_set_switch_time", type="MSG_ACCESSORY_PARA_SET", data=["anum", "BIDIB_ACCESSORY_SWITCH_TIME", "time"],
   valid="anum <= 127")
sp("accessory_para_set_macromap", type="MSG_ACCESSORY_PARA_SET", data=["anum", "BIDIB_ACCESSORY_PARA_MACROMAP", "@data"],
   valid="anum <= 127 && data_size >= 1 && data_size <= 16 && data[data_size - 1] == 0xFF",
   ptr={"data": "data_size"}, sizes={"data_size": [0, 1, 2, 16, 17, 254, 255]})
sp("accessory_para_get", valid=None)
sp("boost_on", valid="unicast <= 1")
sp("boost_off", valid="unicast <= 1")
sp("fw_update_op_enter", type="MSG_FW_UPDATE_OP", prefix=["BIDIB_MSG_FW_UPDATE_OP_ENTER"])
sp("fw_update_op_exit", type="MSG_FW_UPDATE_OP", prefix=["BIDIB_MSG_FW_UPDATE_OP_EXIT"])
sp("fw_update_op_setdest", type="MSG_FW_UPDATE_OP", prefix=["BIDIB_MSG_FW_UPDATE_OP_SETDEST"], valid="target_range <= 1")
sp("fw_update_op_done", type="MSG_FW_UPDATE_OP", prefix=["BIDIB_MSG_FW_UPDATE_OP_DONE"])
# 'white' characters are not transmitted (header doc); the harness keeps them out of the payload (assume) so the
# expected encoding is opcode + data; a separate shape allows them and only checks length/bounds
sp("fw_update_op_data", type="MSG_FW_UPDATE_OP", data=["BIDIB_MSG_FW_UPDATE_OP_DATA", "@data"], valid="data_size <= 120",
   ptr={"data": "data_size"}, sizes={"data_size": [0, 1, 8, 120, 121, 122, 255]},
   assume="for (int i = 0; i < data_size; i++) VASSUME(data[i] != 0x20 && data[i] != 0x09 && data[i] != 0x0D && data[i] != 0x0A);")
sp("bm_get_range", valid="start % 8 == 0 && end % 8 == 0")
sp("bm_mirror_multiple", data=["mnum", "size", "@data"], valid="mnum % 8 == 0 && size >= 8 && size <= 128 && size % 8 == 0",
   ptr={"data": "(size / 8)"}, sizes={"size": [0, 7, 8, 16, 64, 128, 129, 136, 248, 255]})
sp("bm_mirror_occ", valid="1")     # header text 'divisible by 8' is a copy of the multiple-report doc; every detector number is mirrored (C19)
sp("bm_mirror_free", valid="1")
sp("bm_addr_get_range", valid=None)
sp("msg_bm_mirror_position", type="MSG_BM_MIRROR_POSITION")
sp("lc_configx_set", data=["port0", "port1", "@pairs"], valid="pairs_num >= 1 && pairs_num <= 8",
   ptr={"pairs": "(2 * pairs_num)"}, sizes={"pairs_num": [0, 1, 2, 8, 9, 127, 128, 255]})
sp("lc_macro_handle", valid=None)
sp("sys_identify", valid="identify_status <= 1")
sp("sys_clock", valid="tcode0 <= 59 && tcode1 >= 128 && tcode1 <= 151 && tcode2 >= 64 && tcode2 <= 70 && tcode3 >= 192 && tcode3 <= 223")
sp("sys_enable", node="root")
sp("sys_disable", node="root")
sp("cs_allocate", data=["0x00"])
sp("cs_set_state", valid="state <= 4 || state == 8 || state == 9 || state == 0x0D || state == 0xFF")
sp("cs_drive", valid=None)
sp("cs_pom", valid=None)
sp("cs_bin_state", valid="bin_state_params.data <= 1")
sp("cs_prog", valid="cs_prog_params.opcode <= 4")
sp("cs_rcplus_get_id", type="MSG_CS_RCPLUS", prefix=["RC_GET_TID"])
sp("cs_rcplus_set_id", type="MSG_CS_RCPLUS", prefix=["RC_SET_TID"])
sp("cs_rcplus_ping", type="MSG_CS_RCPLUS", prefix=["RC_PING"])
sp("cs_rcplus_ping_once_p0", type="MSG_CS_RCPLUS", prefix=["RC_PING_ONCE_P0"])
sp("cs_rcplus_ping_once_p1", type="MSG_CS_RCPLUS", prefix=["RC_PING_ONCE_P1"])
sp("cs_rcplus_bind", type="MSG_CS_RCPLUS", prefix=["RC_BIND"])
sp("cs_rcplus_find_p0", type="MSG_CS_RCPLUS", prefix=["RC_FIND_P0"])
sp("cs_rcplus_find_p1", type="MSG_CS_RCPLUS", prefix=["RC_FIND_P1"])
sp("vendor_set", data=["vendor_data.name_length", "@vendor_data.name", "vendor_data.value_length", "@vendor_data.value"],
   valid="vendor_data.name_length + vendor_data.value_length <= 119",
   ptr={"vendor_data.name": "vendor_data.name_length", "vendor_data.value": "vendor_data.value_length"},
   sizes={"vendor_data.name_length": [0, 1, 60, 119, 120], "vendor_data.value_length": [0, 1, 59, 60]},
   extra_sizes=[{"vendor_data.name_length": a, "vendor_data.value_length": b} for a, b in
                ((0, 254), (0, 255), (200, 100), (128, 128), (255, 255), (254, 0), (127, 127), (126, 128))])
sp("vendor_get", data=["name_length", "@name"], valid="name_length <= 120", ptr={"name": "name_length"},
   sizes={"name_length": [0, 1, 2, 120, 121, 254, 255]})
sp("string_set", data=["namespace", "string_id", "string_size", "@string"], valid="string_size <= 118",
   ptr={"string": "string_size"}, sizes={"string_size": [0, 1, 2, 118, 119, 252, 253, 255]})
SKIP = {"sys_reset": "whole startup dialogue, subject of C20"}


def parse_headers(repo):
    protos = []
    for f in sorted(glob.glob(os.path.join(repo, "include/lowlevel/*.h"))):
        s = open(f).read()
        for m in re.finditer(r"/\*\*(.*?)\*/\s*void\s+bidib_send_(\w+)\s*\((.*?)\)\s*;", s, re.S):
            doc, name, params = m.group(1), m.group(2), m.group(3)
            ps = []
            for p in params.split(","):
                p = " ".join(p.split())
                mm = re.match(r"(.*?)(\w+)$", p)
                ps.append((mm.group(1).strip(), mm.group(2)))
            ranges = {}
            for n, d in re.findall(r"@param\s+(\w+)\s+(.*?)(?=@param|\Z)", doc, re.S):
                d = " ".join(x.strip(" *") for x in d.split("\n"))
                r = re.search(r"range (\d+)\.\.\.(\d+)", d)
                if r:
                    ranges[n] = (int(r.group(1)), int(r.group(2)))
                r = re.search(r"max (\d+)", d)
                if r:
                    ranges[n] = (0, int(r.group(1)))
            protos.append((name, ps, ranges, os.path.basename(f)))
    return protos


def gen_one(name, ps, ranges, sizes):
    spec = S.get(name, {})
    lines = ['#include "C18_common.h"', "", "void harness(void) {"]
    call = []
    data_default = []
    ptr = spec.get("ptr", {})
    for ty, pn in ps:
        if pn == "node_address":
            lines.append("\tt_bidib_node_address node_address = {ADDR_TOP, ADDR_SUB, ADDR_SUBSUB};")
            call.append(pn)
        elif pn == "action_id":
            call.append("9")
        elif "*" in ty:
            base = ty.replace("const", "").replace("*", "").strip()
            lines.append("\t%s *%s = malloc(%s);" % (base, pn, "SZ_" + pn))
            lines.append("\tfor (int i = 0; i < SZ_%s; i++) %s[i] = ND_u8(\"%s\");" % (pn, pn, pn))
            call.append(pn)
        elif ty in LEAVES or ty == "t_bidib_vendor_data":
            lines.append("\t%s %s;" % (ty, pn))
            if ty == "t_bidib_vendor_data":
                for fld in ("name", "value"):
                    lines.append("\t%s.%s_length = SZV_%s;" % (pn, fld, fld))
                    lines.append("\t%s.%s = malloc(SZV_%s);" % (pn, fld, fld))
                    lines.append("\tfor (int i = 0; i < SZV_%s; i++) %s.%s[i] = ND_u8(\"%s\");" % (fld, pn, fld, fld))
            else:
                for leaf in LEAVES[ty]:
                    lines.append("\t%s.%s = ND_u8(\"%s\");" % (pn, leaf, leaf))
                data_default += ["%s.%s" % (pn, x) for x in STRUCTS[ty]]
            call.append(pn)
        elif ty == "uint8_t":
            if pn in sizes:
                lines.append("\tuint8_t %s = %d;" % (pn, sizes[pn]))
            else:
                lines.append("\tuint8_t %s = ND_u8(\"%s\");" % (pn, pn))
            data_default.append(pn)
            call.append(pn)
        else:
            raise RuntimeError("C18 generator: unhandled parameter type %r in bidib_send_%s" % (ty, name))
    if "assume" in spec:
        lines.append("\t" + spec["assume"])
    data = spec.get("data")
    if data is None:
        data = list(spec.get("prefix", [])) + data_default
    typ = spec.get("type", "MSG_" + name.upper())
    valid = spec.get("valid", "auto")
    if valid == "auto":
        conds = ["%s >= %d && %s <= %d" % (n, a, n, b) for n, (a, b) in sorted(ranges.items())
                 if any(pn == n for _, pn in ps)]
        valid = " && ".join(conds) if conds else "1"
    argl = ", ".join(call)
    lines.append("\tbool valid = true; bool valid_known = %s;" % ("false" if valid is None else "true"))
    if valid is not None:
        lines.append("\tvalid = (%s);" % valid)
    lines.append("\tcap_run = 0; bidib_send_%s(%s);" % (name, argl))
    lines.append("\tcap_run = 1; bidib_send_%s(%s);" % (name, argl))
    if spec.get("node") == "root":
        lines.append("\tuint8_t na[3] = {0, 0, 0};")
    else:
        lines.append("\tuint8_t na[3] = {node_address.top, node_address.sub, node_address.subsub};")
    lines.append("\tc18_begin(na, %s, valid, valid_known);" % typ)
    lines.append("\tif (cap_n[0] == 1) {")
    for d in data:
        if d.startswith("@"):
            pn = d[1:]
            sz = ptr[pn]
            lines.append("\t\tfor (int i = 0; i < %s; i++) c18_data(%s[i]);" % (sz, pn))
        else:
            lines.append("\t\tc18_data(%s);" % d)
    lines.append("\t\tc18_end();")
    lines.append("\t}")
    lines.append("\tVWITNESS();")
    lines.append("}")
    return "\n".join(lines) + "\n"


def queries():
    protos = parse_headers(REPO)
    if len(protos) < 60:
        raise RuntimeError("C18: only %d prototypes parsed from include/lowlevel" % len(protos))
    qs = []
    for name, ps, ranges, hdr in protos:
        if name in SKIP:
            continue
        spec = S.get(name, {})
        szs = spec.get("sizes", {})
        keys = sorted(szs)
        combos = [{}]
        for k in keys:
            combos = [dict(c, **{k: v}) for c in combos for v in szs[k]]
        combos += spec.get("extra_sizes", [])
        for combo in combos:
            tag = "".join("-%s%d" % (k.split(".")[-1], v) for k, v in sorted(combo.items()))
            defs = {}
            sizes = {}
            big = 0
            for k, v in combo.items():
                big = max(big, v)
                if k.startswith("vendor_data."):
                    defs["SZV_" + k.split(".")[1].replace("_length", "")] = v
                else:
                    sizes[k] = v
            for pn, szexpr in spec.get("ptr", {}).items():
                if not pn.startswith("vendor_data."):
                    e = szexpr
                    for k, v in sizes.items():
                        e = e.replace(k, str(v))
                    defs["SZ_" + pn] = "(%s)" % e

            def pre(wd, repo, name=name, ps=ps, ranges=ranges, sizes=sizes):
                open(os.path.join(wd, "gen_%s.c" % name), "w").write(gen_one(name, ps, ranges, sizes))
            # node address: concrete per depth (shape); symbolic address bytes are C01-H3's subject
            for depth in range(4):
                if spec.get("node") == "root" and depth > 0:
                    continue
                d2 = dict(defs)
                d2.update({"ADDR_TOP": "0x11" if depth > 0 else "0", "ADDR_SUB": "0x22" if depth > 1 else "0",
                           "ADDR_SUBSUB": "0x33" if depth > 2 else "0"})
                quick = depth == 3 and (big <= 64 or big >= 248 or (name == "fw_update_op_data" and big != 120) or
                                        combo in spec.get("extra_sizes", []))
                if spec.get("node") == "root":
                    quick = True
                qs.append(Q("send_%s%s-depth%d" % (name, tag, depth), "@wd/gen_%s.c" % name, SRCS, defs=d2, unwind=max(140, 2 * big + 12),
                            pre=pre, tier="quick" if quick else "thorough", env=None,
                            timeout=1700 if (name == "fw_update_op_data" and big >= 100) and not quick else None))
    return qs
