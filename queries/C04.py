from check import Q

META = {
    "functions": ["bidib_node_stall_ready", "bidib_node_update_stall", "bidib_node_try_send",
                  "bidib_node_try_queued_messages", "bidib_node_state_update", "bidib_node_query"],
    "bounds": "inductive step over a forest of 4 arbitrary distinct nodes (any depth 1..3, any ancestor "
              "relation) + the root interface, each present or absent in the node table; <=2 held messages "
              "and <=1 outstanding request per node; any waiter registration satisfying INV",
    "stubs": ["bidib_add_to_buffer -> wire log", "bidib_flush -> counter", "time() -> harness clock"],
    "outside": ["more than 5 nodes", "more than 2 held messages per node (C03 covers deeper queues on one node)",
                "address stacks with a non-zero 4th byte (documented precondition)"],
    "assumes": ["pre-state satisfies INV (i)-(iv) of harness/C04_step.c"],
}
SRCS = ["src/transmission/bidib_transmission_responses.c"]
D = {"VERIF_KEY4": None}


def queries():
    qs = []
    for step, nm in ((0, "trysend"), (1, "stall"), (2, "update"), (3, "tryqueued"), (4, "stallstub")):
        for shape in range(5):
            for nn, maxh in ((3, 1), (3, 2), (4, 1)):
                d = dict(D); d.update({"STEP": step, "MAXH": maxh, "SHAPE": shape, "NN": nn,
                                       "VERIF_QCAP": nn, "VERIF_HCAP": nn, "VERIF_QCAP_H": nn})
                c = nn + 1
                uw = ["strcmp.0:5", "memcpy.0:5", "g_queue_pop_head.0:%d" % c, "g_queue_find_custom.0:%d" % c,
                      "g_hash_table_lookup.0:%d" % c, "g_hash_table_insert.0:%d" % c, "g_hash_table_insert.1:%d" % c,
                      "g_hash_table_new.0:%d" % c, "bidib_node_update_stall.0:%d" % c, "bidib_node_stall_ready.0:4",
                      "bidib_node_stall_ready.1:5", "bidib_node_try_queued_messages.0:%d" % (maxh + 2),
                      "bidib_node_state_update.0:4", "bidib_node_state_update.1:3"]
                qs.append(Q("step-%s-n%d-s%d-h%d" % (nm, nn, shape, maxh), "C04_step.c", SRCS, defs=d, unwind=7,
                            unwindset=uw,
                            native=(step != 4), instr=[["--replace-calls", "bidib_node_try_queued_messages:verif_stub_try_queued"]] if step == 4 else [],
                            tier="quick" if (nn, maxh) == (3, 1) and step in (0, 3, 4) else "thorough"))
    return qs
