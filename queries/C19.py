from check import Q

META = {
    "functions": ["bidib_handle_received_message (MSG_BM_OCC / FREE / MULTIPLE / POSITION cases)", "bidib_send_bm_mirror_occ",
                  "bidib_send_bm_mirror_free", "bidib_send_bm_mirror_multiple", "MSG_BM_MIRROR_POSITION construction",
                  "bidib_buffer_message_with_data", "bidib_flush", "bidib_state_get_board_ref_by_nodeaddr",
                  "secack_on from feature 0x03: see C14 (board parser)"],
    "bounds": "2 boards with arbitrary connected / secack / node address, report from an arbitrary node address of depth 0..3; "
              "all detector numbers, bitmap sizes 8..128 step 8 (quick: 8, 16, 128), all positions; admission or deferral "
              "of the mirror by the node-state layer is the solver's choice",
    "stubs": ["bidib_state_bm_occ/multiple -> no-op", "bidib_node_try_send -> capture", "bidib_flush_impl -> counter"],
    "outside": ["multiple reports whose base number is not a multiple of 8 or whose size is not a multiple of 8 (malformed)",
                "delivery of a deferred mirror: C03/C04"],
    "assumes": [],
}
SRCS = ["src/transmission/bidib_transmission_receive.c", "src/transmission/bidib_transmission_send.c",
        "src/transmission/bidib_transmission_util.c", "src/transmission/bidib_transmission_crc.c",
        "src/transmission/bidib_transmission_message_string_mapping.c", "src/lowlevel/bidib_lowlevel_occupancy.c",
        "src/state/bidib_state_getter.c", "src/state/bidib_state.c"]
R = [["--replace-calls", "bidib_flush_impl:verif_flush_stub"]]
UW = ["strcmp.0:4", "strlen.0:4", "sb_str.0:4", "g_string_new.0:4", "harness.0:4", "harness.1:4", "harness.2:25", "harness.3:25",
      "bidib_node_try_send.0:5", "bidib_node_try_send.1:29", "bidib_build_message_hex_string.0:30", "memcpy.0:30",
      "bidib_buffer_message_with_data.0:6", "bidib_buffer_message_with_data.1:22", "bidib_extract_address.0:6",
      "bidib_extract_address.1:6", "bidib_first_data_byte_index.0:26", "bidib_send_bm_mirror_multiple.0:18"]


def queries():
    qs = []
    for rep, n in ((0, "occ"), (1, "free"), (3, "position")):
        qs.append(Q("mirror-%s" % n, "C19_mirror.c", SRCS, defs={"REPORT": rep, "VERIF_GARRAY_CAP": 5, "VERIF_QCAP": 3},
                    unwind=6, unwindset=UW, instr=R))
    for size in range(8, 136, 8):
        qs.append(Q("mirror-multiple-%d" % size, "C19_mirror.c", SRCS,
                    defs={"REPORT": 2, "SIZE": size, "VERIF_GARRAY_CAP": 5, "VERIF_QCAP": 3}, unwind=6, unwindset=UW, instr=R,
                    tier="quick" if size in (8, 16, 128) else "thorough"))
    # a mirror that is deferred (node budget used up) must still go out: held messages are released as soon as answers or
    # the 2 s expiry free the budget - the receiver-side step of C03 on an arbitrary node state
    from check import borrow
    qs += borrow("C03", lambda q: q.name.startswith("step1-"))
    return qs
