from check import Q

META = {
    "functions": ["bidib_auto_receive", "bidib_receive_first_pkt_magic", "bidib_receive_packet", "bidib_split_packet",
                  "bidib_extract_address", "bidib_extract_msg_type", "bidib_extract_seq_num",
                  "bidib_node_state_get_and_incr_receive_seqnum", "bidib_node_state_set_receive_seqnum"],
    "bounds": "framing: every byte stream of N<=12 (quick) / <=20 (thorough) bytes incl. up to 1 (2) empty polls; "
              "split: packets of 1..3 well-formed messages, address depth 0..3, data 0..4 bytes, any bytes, any "
              "stored receive counter",
    "stubs": ["bidib_split_packet -> recorder (framing stage)", "bidib_handle_received_message -> recorder (split stage)",
              "bidib_node_state_update -> recorder (split stage)", "read callback -> harness stream"],
    "outside": ["streams longer than the bound", "libbidib's sender output is related to this decoder through the "
                "shared reference encoder/decoder pair of ref_bidib.h (C01-H1 proves the output format, this proves the "
                "input format) plus one joint query"],
    "assumes": [],
}
CRC = ["src/transmission/bidib_transmission_crc.c"]
SPLIT_SRCS = ["src/transmission/bidib_transmission_util.c", "src/transmission/bidib_transmission_node_states.c",
              "src/transmission/bidib_transmission_responses.c"]
RS = [["--replace-calls", "bidib_split_packet:verif_split_stub"]]


def queries():
    qs = []
    for n in list(range(2, 13)) + [14, 16, 20]:
        for polls in (1,) if n <= 12 else (2,):
            wc = 1 if n >= 4 else 0
            qs.append(Q("frame-n%d" % n, "C02_frame.c", CRC, defs={"N": n, "POLLS": polls, "WCALLS": min(2, (n - 1) // 3) if n >= 4 else 0},
                        unwind=n + 2, instr=RS,
                        unwindset=["ref_crc8_byte.0:9", "bidib_receive_packet.0:%d" % (polls + 1),
                                   "bidib_receive_first_pkt_magic.0:%d" % (polls + 1),
                                   "bidib_receive_packet.1:%d" % (n + 2), "bidib_receive_first_pkt_magic.1:%d" % (n + 2)],
                        tier="quick" if n <= 8 else "thorough", solver="cadical", required=n <= 10,
                        timeout=None if n <= 8 else 1750))
    RH = [["--replace-calls", "bidib_handle_received_message:verif_handle_stub"],
          ["--replace-calls", "bidib_node_state_update:verif_update_stub"]]
    shapes = [((d, dl),) for d in range(4) for dl in (0, 1, 4)]
    shapes += [((0, 0), (1, 1)), ((1, 2), (1, 0)), ((2, 1), (0, 3)), ((3, 0), (3, 2)), ((0, 4), (0, 4))]
    shapes_t = [((0, 0), (1, 1), (2, 0)), ((1, 1), (1, 1), (1, 1)), ((3, 2), (0, 0), (1, 4)), ((2, 4), (2, 4))]
    for tier, shs in (("quick", shapes), ("thorough", shapes_t)):
        for sh in shs:
            d = {"MODE": 0, "NM": len(sh), "VERIF_HCAP": 3, "VERIF_KEY4": None}
            for i, (dep, dl) in enumerate(sh):
                d["D%d" % (i + 1)] = dep; d["DL%d" % (i + 1)] = dl
            qs.append(Q("split-" + "_".join("d%dl%d" % x for x in sh), "C02_split.c", SPLIT_SRCS, defs=d,
                        unwind=18, instr=RH, tier=tier))
    for n in range(1, 9):
        qs.append(Q("roundtrip-n%d" % n, "C02_roundtrip.c", CRC + ["src/transmission/bidib_transmission_util.c"], defs={"N": n},
                    unwind=2 * n + 10, instr=RS, tier="quick" if n <= 6 else "thorough"))
    return qs
