from check import Q

META = {
    "functions": ["bidib_state_bm_occ", "bidib_state_bm_multiple", "bidib_state_bm_address", "bidib_state_bm_address_log_changes",
                  "bidib_state_update_train_available", "bidib_get_train_position_intern", "bidib_get_train_position",
                  "bidib_get_train_on_track", "bidib_state_get_segment_state_ref_by_nodeaddr", "bidib_state_get_segment_state",
                  "bidib_state_free_single_segment_state_intern"],
    "bounds": "3 segments over 2 boards, 2 trains, each segment listing 0..2 arbitrary addresses, arbitrary (even inconsistent) "
              "derived values before; one report of any kind with arbitrary node/number; multiple reports of 8/16 bits, "
              "address reports of 0..3 entries (quick <=2)",
    "stubs": ["logging, clock"],
    "outside": ["more segments/trains/listed addresses", "a report listing the same decoder twice (malformed)"],
    "assumes": ["configuration uniqueness invariants (C14)"],
}
SRCS = ["src/state/bidib_state_setter.c", "src/state/bidib_state_getter.c", "src/state/bidib_state.c",
        "src/state/bidib_state_free.c", "src/highlevel/bidib_highlevel_getter.c"]
UW = ["strcmp.0:4", "strlen.0:4", "sb_str.0:4", "g_string_new.0:4", "strdup.0:4", "sb_train.0:10", "harness.0:8"]


def queries():
    qs = _q({}, "")
    for q in qs:
        if q.name != "position-getter":
            # functional queries: memory-safety instrumentation off (4x cheaper); the same units run WITH it in the
            # "-mem" twins of the thorough tier, in C12 (arbitrary payloads) and C17
            q.checks = False
            q.cbmc = ["--slice-formula"]
            q.timeout = 420
            if q.name.startswith("multiple") or q.name == "address-2":
                q.tier = "thorough"; q.timeout = 1700
    for q in _q({}, "-mem"):
        if q.name != "position-getter-mem":
            q.tier = "thorough"; q.timeout = 1700
            qs.append(q)
    for q in _q({"SB_TRAINS": 2, "SB_SEG_ADDRS": 2}, "-t2a2"):
        q.tier = "thorough"; q.timeout = 1700
        qs.append(q)
    # memory: the larger shapes need 10-20 GB each (16 at a time exhaust the 62 GB of this machine: the kernel kills them);
    # they run at most 3 at a time, and the ones that do not fit the tier budget are stretch goals (never required)
    for q in qs:
        big = q.name.endswith("-mem") or q.name.endswith("-t2a2") or q.name.startswith("multiple") or q.name in ("address-2", "address-3")
        if big:
            q.heavy = True
        if q.tier != "quick" and (q.name.startswith(("address-1-", "address-2-", "address-3", "multiple-")) and q.name not in ("multiple-8", "multiple-16", "address-1-mem")):
            q.required = False; q.timeout = 900
    return qs


R = [["--replace-calls", "bidib_get_train_position_intern:verif_position_stub"],
     ["--replace-calls", "bidib_free_train_position_query:verif_position_free_stub"]]


def _q(extra, tag):
    qs = [Q("position-getter" + tag, "C08_presence.c", SRCS, defs={"STEP": 3, "VERIF_GARRAY_CAP": 5, **extra}, unwind=5,
            unwindset=UW)]
    qs += [Q("occ" + tag, "C08_presence.c", SRCS, defs={"STEP": 0, "VERIF_GARRAY_CAP": 5, **extra}, unwind=5, unwindset=UW, instr=R)]
    for size in (8, 16):
        qs.append(Q("multiple-%d" % size + tag, "C08_presence.c", SRCS, defs={"STEP": 1, "SIZE": size, "VERIF_GARRAY_CAP": 5, **extra},
                    unwind=max(5, size + 1), unwindset=UW, instr=R, tier="quick" if size == 8 else "thorough"))
    for cnt in (0, 1, 2, 3):
        qs.append(Q("address-%d" % cnt + tag, "C08_presence.c", SRCS, defs={"STEP": 2, "COUNT": cnt, "VERIF_GARRAY_CAP": 5, **extra},
                    unwind=9, unwindset=UW, instr=R, tier="quick" if cnt <= 2 else "thorough"))
    return qs
