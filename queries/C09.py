from check import Q

META = {
    "functions": ["bidib_switch_point", "bidib_set_signal", "bidib_set_peripheral", "bidib_set_train_speed",
                  "bidib_set_train_speed_internal", "bidib_set_calibrated_train_speed", "bidib_emergency_stop_train",
                  "bidib_set_train_peripheral", "bidib_get_current_train_peripheral_bits", "bidib_set_booster_power_state",
                  "bidib_set_track_output_state", "bidib_set_track_output_state_all", "bidib_request_reverser_state",
                  "bidib_send_accessory_set", "bidib_send_cs_accessory_intern", "bidib_send_lc_output",
                  "bidib_send_cs_drive_intern", "bidib_send_boost_on/off", "bidib_send_cs_set_state", "bidib_send_vendor_get",
                  "bidib_state_cs_drive", "bidib_state_cs_accessory", "bidib_lib_speed_to_dcc_format",
                  "bidib_dcc_speed_to_lib_format", "bidib_buffer_message_with_data"],
    "bounds": "one board with one entity of every kind (2 aspects each), one train with 2 functions; all ids / aspects given "
              "as arbitrary strings of <=2 characters, every speed -200..200, every function bit 0..4,8..31 x state byte 0..255, "
              "arbitrary pre-state (so function bits depend on any history), connected / class bits / node address arbitrary",
    "stubs": ["bidib_node_try_send -> capture (answers 'deferred')", "sequence number constant"],
    "outside": ["more than one board / two aspects / two train functions", "configurations with aspect values or numbers > 127, "
                "dcc aspect ports > 31 or values > 1, function bits 5..7 (not expressible in BiDiB; see DESIGN observations)"],
    "assumes": ["configuration satisfies the uniqueness invariants of C14 and the protocol value ranges above"],
}
SRCS = ["src/highlevel/bidib_highlevel_setter.c", "src/highlevel/bidib_highlevel_action_ids.c",
        "src/transmission/bidib_transmission_send.c", "src/transmission/bidib_transmission_util.c",
        "src/transmission/bidib_transmission_crc.c",
        "src/state/bidib_state_getter.c", "src/state/bidib_state_setter.c", "src/state/bidib_state.c"] + \
       ["src/lowlevel/bidib_lowlevel_%s.c" % n for n in ("accessory", "booster", "feature", "firmware", "occupancy",
                                                          "portconfig", "system", "track", "userconfig")]
UW = ["strcmp.0:4", "strlen.0:4", "sb_str.0:4", "g_string_new.0:4", "strdup.0:4", "bidib_node_try_send.0:5",
      "bidib_node_try_send.1:21", "msg_is.0:4", "msg_is.1:13", "bidib_build_message_hex_string.0:17", "sb_train.0:10",
      "bidib_buffer_message_with_data.0:6", "bidib_buffer_message_with_data.1:12", "bidib_extract_address.0:6",
      "bidib_extract_address.1:6", "bidib_state_cs_drive.1:6", "bidib_state_cs_drive.2:6", "bidib_state_cs_drive.3:6",
      "bidib_state_cs_drive.4:10", "bidib_state_cs_drive.5:10", "harness.0:4", "harness.1:10"]
NAMES = ["switch_point", "set_signal", "set_peripheral", "train_speed", "calibrated_speed", "emergency_stop",
         "train_peripheral", "booster_power", "track_output_state", "request_reverser", "track_output_state_all"]


def queries():
    qs = _base()
    out = []
    pairs_q = [(0, 4), (4, 8), (8, 11), (11, 12), (15, 16), (23, 24), (24, 31), (2, 17)]
    pairs_t = [(a, b) for a in (0, 1, 2, 3, 4, 8, 9, 10, 11, 12, 13, 14, 15, 16, 19, 23, 24, 27, 31) for b in (0, 4, 8, 12, 16, 31) if a != b
               and (a, b) not in pairs_q]
    for q in qs:
        if q.name != "cmd-train_peripheral":
            out.append(q)
            continue
        for tier, pairs in (("quick", pairs_q), ("thorough", pairs_t)):
            for a, b in pairs:
                for fid in ("hd", "cb"):
                    d = dict(q.defs); d.update({"SB_FBIT0": a, "SB_FBIT1": b, "CONC_A1": '"t1"', "CONC_A2": '"b1"',
                                                "CONC_A3": '"%s"' % fid})
                    out.append(Q("cmd-train_peripheral-bits%d_%d-%s" % (a, b, fid), q.harness, q.srcs, defs=d,
                                 unwind=q.unwind, unwindset=q.unwindset, tier=tier if fid == "hd" else "thorough"))
        for ids in (("zz", "b1", "hd"), ("t1", "zz", "hd"), ("t1", "b1", "zz"), ("t1", "t1", "hd"), ("b1", "b1", "cb")):
            d = dict(q.defs); d.update({"SB_FBIT0": 3, "SB_FBIT1": 9, "CONC_A1": '"%s"' % ids[0], "CONC_A2": '"%s"' % ids[1],
                                        "CONC_A3": '"%s"' % ids[2]})
            out.append(Q("cmd-train_peripheral-ids-%s_%s_%s" % ids, q.harness, q.srcs, defs=d, unwind=q.unwind,
                         unwindset=q.unwindset, nowitness=True))
    return out


def _base():
    return [Q("cmd-%s" % n, "C09_cmd.c", SRCS, defs={"CMD": i, "VERIF_GARRAY_CAP": 9}, unwind=5, unwindset=UW, native=False)
            for i, n in enumerate(NAMES)]
