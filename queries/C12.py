from check import Q
from queries.gen_readme import gen_readme_route
from queries.C02 import CRC, RS, SPLIT_SRCS

META = {
    "functions": ["bidib_auto_receive", "bidib_receive_first_pkt_magic", "bidib_receive_packet", "bidib_split_packet",
                  "bidib_extract_address", "bidib_extract_msg_type", "bidib_extract_seq_num", "bidib_first_data_byte_index",
                  "bidib_handle_received_message", "bidib_log_sys_error", "bidib_log_boost_stat_error",
                  "bidib_log_boost_stat_okay", "bidib_state_vendor", "bidib_state_cs_state", "bidib_state_boost_diagnostic"],
    "bounds": "framing: every stream of <=8 (quick) / <=12 bytes on the real file and of 8..10 bytes with the read buffer "
              "scaled to 4/6 bytes (overflow edge); split: every packet of 1..10 (..16) arbitrary bytes; dispatcher: one "
              "exact-size heap message, all 256 types, 0..9 data bytes, depth 0..3, debug/normal",
    "stubs": ["stage interfaces (split / dispatcher / state setters) replaced by contract stubs that read exactly the "
              "ranges their contract allows", "read callback -> harness stream"],
    "outside": ["streams longer than the bounds except via the scaled buffer", "libyaml / serial device"],
    "assumes": [],
}
RB = "src/transmission/bidib_transmission_receive.c"
RH = [["--replace-calls", "bidib_handle_received_message:verif_handle_stub"],
      ["--replace-calls", "bidib_node_state_update:verif_update_stub"]]
ROUTE_SRCS = ["src/transmission/bidib_transmission_util.c", "src/transmission/bidib_transmission_message_string_mapping.c",
              "src/state/bidib_state.c"]


def frame_q(name, n, polls, tier, scaled=None, required=True):
    return Q(name, "C02_frame.c", CRC, defs={"N": n, "POLLS": polls, "WCALLS": 0 if scaled else (1 if n >= 4 else 0)},
             unwind=n + 2, instr=RS, tier=tier, required=required,
             unwindset=["ref_crc8_byte.0:9", "bidib_receive_packet.0:%d" % (polls + 1),
                        "bidib_receive_first_pkt_magic.0:%d" % (polls + 1),
                        "bidib_receive_packet.1:%d" % (n + 2), "bidib_receive_first_pkt_magic.1:%d" % (n + 2)],
             scaled=[(RB, r"#define READ_BUFFER_SIZE 256", "#define READ_BUFFER_SIZE %d" % scaled)] if scaled else [],
             note="read buffer scaled to %d bytes" % scaled if scaled else "", timeout=None if tier == "quick" else 1750)


def queries():
    qs = []
    for n in (4, 6, 8):
        qs.append(frame_q("frame-n%d" % n, n, 1, "quick"))
    for n in (10, 12):
        qs.append(frame_q("frame-n%d" % n, n, 1, "thorough", required=n <= 10))
    for rb, ns in ((4, (6, 7, 8)), (6, (9, 10))):
        for n in ns:
            qs.append(frame_q("frame-rb%d-n%d" % (rb, n), n, 0, "quick" if (rb, n) in ((4, 7), (4, 8)) else "thorough", scaled=rb))
    for pl in list(range(1, 11)) + [12, 14, 16]:
        qs.append(Q("split-any-pl%d" % pl, "C02_split.c", SPLIT_SRCS,
                    defs={"MODE": 1, "PL": pl, "VERIF_HCAP": 4, "VERIF_KEY4": None}, unwind=max(pl + 3, 7), instr=RH,
                    lib_unwind_violation=True,
                    leak=True, tier="quick" if pl <= 8 else "thorough"))
    for depth in range(4):
        for dlen in range(0, 10):
            qs.append(Q("dispatch-depth%d-dl%d" % (depth, dlen), "C06_route.c", ROUTE_SRCS,
                        defs={"DEPTH": depth, "DLEN": dlen, "VERIF_QCAP": 3, "MODE_SHORT": None}, unwind=42, leak=True,
                        pre=gen_readme_route, tier="quick" if (depth == 0 and dlen in (0, 1, 2, 4, 8, 9)) or (depth in (1, 3) and dlen in (0, 2)) else "thorough"))
    from queries.C07 import SRCS as FOLD_SRCS, UW as FOLD_UW
    for vlen in (2, 3, 4, 6):
        qs.append(Q("vendor-any-len%d" % vlen, "C07_fold.c", FOLD_SRCS, defs={"KIND": 95, "VLEN": vlen, "VERIF_GARRAY_CAP": 9},
                    unwind=8, unwindset=[u for u in FOLD_UW if not u.startswith("strndup")] + ["strndup.0:9", "strndup.1:9"], tier="quick" if vlen in (2, 4) else "thorough"))
    return qs
