#!/usr/bin/env python3
"""Runner for the solver-based (CBMC) checks of libbidib.  See DESIGN.md.

usage: python3 check.py check <ID> [--tier quick|thorough] [--only NAME-SUBSTR] [--keep] [-v]
       python3 check.py list [<ID>]
       python3 check.py replay <path>
       python3 check.py setup

exit 0  property held on every query discharged (KNOWN-FINDING lines allowed)
exit 1  a query returned a counterexample not listed in known_findings.txt
        -> prints "VIOLATION property=<id> replay=<path>"
exit 2  the check itself is broken / inconclusive (harness does not build, witness twin
        unreachable = vacuous, unwinding bound too small, body-less callee, timeout of a
        required query).  Never reported as success.
"""
import concurrent.futures
import hashlib
import importlib
import json
import os
import re
import resource
import shutil
import subprocess
import sys
import threading
import time

VERIF = os.path.dirname(os.path.abspath(__file__))
REPO = os.environ.get("VERIF_REPO", "/repo")
BUILD = os.environ.get("VERIF_BUILD", os.path.join(VERIF, "build"))
JOBS = int(os.environ.get("VERIF_JOBS", "16"))
HEAVY_JOBS = int(os.environ.get("VERIF_HEAVY_JOBS", "3"))
HEAVY_SEM = threading.BoundedSemaphore(HEAVY_JOBS)
MEM_GB = int(os.environ.get("VERIF_MEM_GB", "20"))

GLIB_CFLAGS = subprocess.run(["pkg-config", "--cflags", "glib-2.0"], capture_output=True,
                             text=True).stdout.split()
DEFAULT_ENV = ["nd.c", "glib_model.c", "pthread_model.c", "libc_model.c", "log_model.c"]
CBMC_BASE = ["--unwinding-assertions", "--pointer-overflow-check", "--signed-overflow-check",
             "--undefined-shift-check", "--drop-unused-functions", "--no-malloc-may-fail",
             "--object-bits", "11"]


MODEL_UNWIND = ["note_edges.0:17", "note_edges_mode.0:17", "verif_max_acq.0:17", "verif_all_free.0:17", "verif_locks_reset.0:17", "g_array_append_vals.0:260", "g_array_append_vals.1:260", "g_array_append_vals.2:260", "g_array_remove_range.0:260",
                "verif_locks_reset.1:17"]


CACHE_DIR = None
CACHE_LOCK = threading.Lock()
CACHE_KEYS = {}
CACHE_DONE = set()


class Q:
    """One solver query = harness x shape."""

    def __init__(self, name, harness, srcs=(), env=None, defs=None, unwind=8, unwindset=(),
                 instr=(), cbmc=(), tier="quick", required=True, timeout=None, entry="harness",
                 scaled=(), expect_fail=None, solver=None, native=False, note="",
                 repo_defs=None, leak=False, nowitness=False, pre=None, checks=True,
                 lib_unwind_violation=False, unwind_fn=None, src_flags=None, extra_srcs=None, cache_harness=False, heavy=False):
        self.name = name
        self.harness = harness
        self.srcs = list(srcs)
        self.env = list(DEFAULT_ENV if env is None else env)
        self.defs = dict(defs or {})
        self.unwind = unwind
        self.unwindset = list(unwindset)
        self.instr = list(instr)
        self.cbmc = list(cbmc)
        self.tier = tier
        self.required = required
        self.timeout = timeout
        self.entry = entry
        self.scaled = list(scaled)      # [(relpath, regex, replacement)]
        self.expect_fail = expect_fail  # known-finding tag this query is *expected* to exhibit
        self.solver = solver
        self.native = native
        self.note = note
        self.repo_defs = dict(repo_defs or {})
        self.leak = leak
        self.nowitness = nowitness
        self.lib_unwind_violation = lib_unwind_violation
        self.src_flags = dict(src_flags or {})   # {repo-relative source: [extra compiler flags]} (paths may contain @wd)
        self.extra_srcs = list(extra_srcs or [])  # generated sources (paths may start with @wd/)
        self.heavy = heavy                   # memory-hungry query: at most HEAVY_JOBS of these run at a time
        self.cache_harness = cache_harness   # harness object shared between queries with equal flags (no generated includes)
        self.unwind_fn = dict(unwind_fn or {})   # {function-name regex: bound} -> expanded to --unwindset per loop
        self.checks = checks            # False: functional query, CBMC's memory-safety/overflow instrumentation off
        self.pre = pre                  # callable(wd, repo): generate headers into wd before compiling


def run(cmd, timeout=None, cwd=None, mem_gb=None):
    def lim():
        if mem_gb:
            b = mem_gb * (1 << 30)
            resource.setrlimit(resource.RLIMIT_AS, (b, b))
    t0 = time.time()
    try:
        p = subprocess.run(cmd, capture_output=True, text=True, timeout=timeout, cwd=cwd,
                           preexec_fn=lim)
        return p.returncode, p.stdout, p.stderr, time.time() - t0
    except subprocess.TimeoutExpired as e:
        out = e.stdout.decode() if isinstance(e.stdout, bytes) else (e.stdout or "")
        return -9, out, "TIMEOUT", time.time() - t0


def dflags(d):
    out = []
    for k, v in sorted(d.items()):
        out.append("-D%s" % k if v is None else "-D%s=%s" % (k, v))
    return out


def scaled_copy(q, wd):
    """Scratch copy of /repo/src + include with single #define rewrites (DESIGN 3.2)."""
    root = os.path.join(wd, "repo")
    if os.path.exists(root):
        shutil.rmtree(root)
    os.makedirs(root)
    for d in ("src", "include"):
        shutil.copytree(os.path.join(REPO, d), os.path.join(root, d))
    for rel, pat, rep in q.scaled:
        p = os.path.join(root, rel)
        s = open(p).read()
        s2, n = re.subn(pat, rep, s)
        if n != 1:
            raise RuntimeError("scaled copy: pattern %r matched %d times in %s" % (pat, n, rel))
        open(p, "w").write(s2)
    return root


def build(q, wd, witness):
    """goto-cc compile + link + goto-instrument. Returns (path, error)"""
    repo = scaled_copy(q, wd) if q.scaled else REPO
    tag = "w" if witness else "m"
    if q.pre:
        q.pre(wd, repo)
    inc = ["-I" + os.path.join(VERIF, "env"), "-I" + os.path.join(VERIF, "harness"),
           "-I" + repo, "-I" + wd] + GLIB_CFLAGS
    defs = dflags(q.defs) + (["-DWITNESS"] if witness else [])
    objs = []
    hpath = os.path.join(wd, q.harness[4:]) if q.harness.startswith("@wd/") else os.path.join(VERIF, "harness", q.harness)
    fdef = ["-Dfree=verif_free"] if q.instr else []     # see env/libc_model.c (cbmc crash on &free after goto-instrument)
    jobs = [(hpath, "e" if (q.cache_harness and not q.harness.startswith("@wd/")) else "h", defs + fdef)]
    for e in q.env:
        jobs.append((os.path.join(VERIF, "env", e), "e", defs))
    for s in q.srcs:
        extra = [f.replace("@wd", wd) for f in q.src_flags.get(s, [])]
        jobs.append((os.path.join(repo, s), "r", dflags(q.repo_defs) + defs + extra +
                     (["-Dfree=verif_free"] if q.instr else [])))
    for s in q.extra_srcs:
        jobs.append((s.replace("@wd", wd), "h", defs + fdef))
    for src, kind, d in jobs:
        if kind == "h" or q.scaled:
            o = os.path.join(wd, "%s_%s_%s.gb" % (tag, kind, os.path.basename(src)))
            rc, out, err, _ = run(["goto-cc", "-std=gnu11", "-c", src, "-o", o] + inc + d, timeout=300)
            if rc != 0:
                return None, "compile %s: %s" % (src, (err or out)[-2000:])
        else:
            # env / repo units: compiled once per check run and flag set (rebuilt from the working tree on every run)
            incc = [i for i in inc if i != "-I" + wd]
            key = hashlib.sha1(("\0".join([src] + incc + d)).encode()).hexdigest()[:16]
            o = os.path.join(CACHE_DIR, "%s_%s.gb" % (os.path.basename(src), key))
            with CACHE_LOCK:
                lk = CACHE_KEYS.setdefault(key, threading.Lock())
            with lk:
                if key not in CACHE_DONE:
                    rc, out, err, _ = run(["goto-cc", "-std=gnu11", "-c", src, "-o", o] + incc + d, timeout=300)
                    if rc != 0:
                        return None, "compile %s: %s" % (src, (err or out)[-2000:])
                    CACHE_DONE.add(key)
        objs.append(o)
    allgb = os.path.join(wd, tag + "_all.gb")
    rc, out, err, _ = run(["goto-cc", "-o", allgb] + objs, timeout=300)
    if rc != 0:
        return None, "link: " + (err or out)[-2000:]
    cur = allgb
    for i, step in enumerate(q.instr):
        nxt = os.path.join(wd, "%s_i%d.gb" % (tag, i))
        rc, out, err, _ = run(["goto-instrument"] + step + [cur, nxt], timeout=300)
        if rc != 0:
            return None, "goto-instrument %s: %s" % (step, (err or out)[-2000:])
        cur = nxt
    return cur, None


def borrow(modname, pick, tier="quick"):
    """queries of another property whose obligations this property also rests on (re-run under this property's id)"""
    import copy
    mod = importlib.import_module("queries." + modname)
    out = []
    for q in mod.queries():
        if pick(q):
            q2 = copy.copy(q)
            q2.name = modname + "-" + q.name
            q2.tier = tier if q.tier == "quick" else "thorough"
            q2.note = ((q.note or "") + " [borrowed from %s]" % modname).strip()
            out.append(q2)
    return out


def loops_of(gb):
    rc, out, err, _ = run(["goto-instrument", "--show-loops", gb], timeout=120)
    return re.findall(r"^Loop ([^\s:]+):", out, re.M)


def cbmc_cmd(q, gb, witness, solver):
    cmd = ["cbmc", gb, "--function", q.entry, "--unwind", str(q.unwind)]
    extra = []
    if q.unwind_fn:
        explicit = set(u.split(":")[0] for u in q.unwindset)
        for lp in loops_of(gb):
            fn = lp.rsplit(".", 1)[0]
            for pat, bound in q.unwind_fn.items():
                if lp not in explicit and re.fullmatch(pat, fn):
                    extra.append("%s:%d" % (lp, bound))
                    break
    cmd += ["--unwindset", ",".join(MODEL_UNWIND + q.unwindset + extra)]
    cmd += CBMC_BASE + q.cbmc
    if not q.checks:
        cmd = [c for c in cmd if c not in ("--pointer-overflow-check", "--signed-overflow-check",
                                            "--undefined-shift-check")] + ["--no-standard-checks"]
    if q.leak and not witness:
        cmd += ["--memory-leak-check"]
    if witness:
        cmd += ["--no-standard-checks", "--no-pointer-overflow-check" if False else "--stop-on-fail"]
        cmd = [c for c in cmd if c not in ("--pointer-overflow-check", "--signed-overflow-check",
                                          "--undefined-shift-check")]
    else:
        cmd += ["--trace"]
    if solver == "kissat":
        cmd += ["--external-sat-solver", "kissat"]
    elif solver in ("cadical", "minisat2", "glucose"):
        cmd += ["--sat-solver", solver]
    elif solver in ("z3", "cvc5"):
        cmd += ["--" + solver]
    cmd += ["--json-ui"]
    return cmd


def parse_json(out):
    try:
        data = json.loads(out)
    except Exception:
        # truncated output (timeout): try to close the array
        return None
    res = {"results": None, "status": None, "messages": [], "stats": {}}
    for item in data:
        if "result" in item:
            res["results"] = item["result"]
        if "cProverStatus" in item:
            res["status"] = item["cProverStatus"]
        if "messageText" in item:
            res["messages"].append(item["messageText"])
    return res


ND_FUNCS = ("ND_u8", "ND_u16", "ND_u32", "ND_int", "ND_bool")


def nd_values(trace):
    vals = []
    for st in trace or []:
        if st.get("stepType") != "assignment" or st.get("hidden"):
            continue
        fn = (st.get("sourceLocation") or {}).get("function")
        if fn in ND_FUNCS and st.get("lhs") == "v" and st.get("assignmentType") == "variable":
            v = st.get("value", {})
            d = v.get("data")
            if d in ("TRUE", "true"):
                d = 1
            elif d in ("FALSE", "false"):
                d = 0
            try:
                vals.append((fn, int(d)))
            except Exception:
                vals.append((fn, 0))
    return vals


def norm_desc(d):
    d = re.sub(r"\s+", " ", d or "")
    return d.strip()


def classify(results):
    """split CBMC property results into failures by kind"""
    fails = []
    total = len(results)
    ok = 0
    for r in results:
        st = r.get("status")
        if st == "SUCCESS":
            ok += 1
            continue
        if st != "FAILURE":
            continue  # UNKNOWN: undecided because an earlier check on the path failed
        name = r.get("property", "")
        desc = norm_desc(r.get("description", ""))
        loc = r.get("sourceLocation") or {}
        fn = loc.get("function", "?")
        parts = name.split(".")
        cls = parts[-2] if len(parts) >= 2 else name
        kind = "property"
        if cls == "unwind" or "unwinding assertion" in desc:
            kind = "unwind"
        elif cls == "no-body" or "no body for" in desc:
            kind = "nobody"
        elif desc.startswith("MODEL:"):
            kind = "model"
        elif cls == "pointer_arithmetic" or "pointer arithmetic" in desc:
            kind = "ptrarith"
        elif cls == "pointer" and desc.startswith("same object violation"):
            # CBMC 6.11 reports p - a as "not the same object" when p is the one-past-the-end pointer of a
            # variable-length array (valid C; reproduced on a 3-line program, fixed-size arrays are fine).  Pointer
            # subtraction checks are therefore reported with the pointer-arithmetic class (separately, never as a
            # violation on their own); out-of-bounds ACCESSES are still caught by the dereference checks.
            kind = "ptrarith"
        fails.append({"name": name, "desc": desc, "function": fn, "cls": cls, "kind": kind,
                      "file": loc.get("file"), "line": loc.get("line"), "status": st,
                      "trace": r.get("trace")})
    return total, ok, fails


def finding_key(f):
    return "%s:%s:%s" % (f["function"], f["cls"], f["desc"])


def load_known():
    known = {}
    fixed = []
    p = os.path.join(VERIF, "known_findings.txt")
    if os.path.exists(p):
        for line in open(p):
            line = line.rstrip("\n")
            if line.startswith("known:"):
                m = re.match(r"known: property=(\S+) site=(.*?) \|\| (.*)$", line)
                if m:
                    known.setdefault(m.group(1), []).append((m.group(2), m.group(3)))
            elif line.startswith("fixed:"):
                fixed.append(line)
    return known, fixed


def run_query(pid, q, tier, keep=False, verbose=False):
    if q.heavy:
        with HEAVY_SEM:
            return run_query_(pid, q, tier, keep, verbose)
    return run_query_(pid, q, tier, keep, verbose)


def run_query_(pid, q, tier, keep=False, verbose=False):
    wd = os.path.join(BUILD, pid, q.name)
    if os.path.exists(wd):
        shutil.rmtree(wd)
    os.makedirs(wd)
    res = {"query": q.name, "harness": q.harness, "defs": q.defs, "required": q.required,
           "unwind": q.unwind, "unwindset": q.unwindset, "srcs": q.srcs, "scaled": q.scaled,
           "status": None, "seconds": 0.0, "solver": None, "obligations": 0, "discharged": 0,
           "fails": [], "witness": None, "note": q.note, "expect_fail": q.expect_fail}
    tmo = q.timeout or (600 if tier == "quick" else 3600)
    if os.environ.get("VERIF_TIMEOUT"):
        tmo = int(os.environ["VERIF_TIMEOUT"])
    t0 = time.time()
    try:
        gb, err = build(q, wd, False)
        if err:
            res["status"] = "build-error"
            res["error"] = err
            return res
        solver = q.solver or "cadical"
        cmd = cbmc_cmd(q, gb, False, solver)
        res["cmd"] = " ".join(cmd)
        for attempt in range(4):
            rc, out, err, secs = run(cmd, timeout=tmo, mem_gb=MEM_GB)
            res["solver"] = solver
            res["solver_s"] = round(res.get("solver_s", 0) + secs, 2)
            if rc == -9:
                res["status"] = "timeout"
                if secs < tmo - 10:
                    res["note"] = (res.get("note") or "") + " [cbmc was killed after %.0f s, before its time limit: out of memory]" % secs
                return res
            pj = parse_json(out)
            if rc not in (0, 10) or pj is None or pj["results"] is None:
                res["status"] = "cbmc-error"
                res["error"] = (out[-1500:] + "\n" + (err or "")[-1500:])
                return res
            total, ok, fails = classify(pj["results"])
            # A loop of the repository that the query does not bound explicitly hit the default bound (e.g. a loop that a
            # refactoring moved into a new helper): raise the bound for exactly those loops and decide again.  Loops with
            # an explicit bound and queries whose bounds are derived from the input size (lib_unwind_violation) are
            # never adapted - there a failing unwinding assertion is a result, not a tuning matter.
            explicit = set(u.split(":")[0] for u in q.unwindset)
            grow = sorted(set(re.sub(r"\.unwind\.(\d+)$", r".\1", f["name"]) for f in fails
                              if f["kind"] == "unwind" and ((f.get("file") or "").startswith(REPO + "/") or
                                                            (f.get("file") or "").endswith("env/libc_model.c"))))
            grow = [g for g in grow if g not in explicit]
            if not grow or q.lib_unwind_violation or attempt == 3 or \
                    any(f["kind"] not in ("unwind",) for f in fails):
                break
            bound = max(q.unwind, 8) * (2 ** (attempt + 1))
            res.setdefault("auto_unwind", {}).update({g: bound for g in grow})
            i = cmd.index("--unwindset") + 1
            kept = [u for u in cmd[i].split(",") if u.split(":")[0] not in grow]
            cmd[i] = ",".join(kept + ["%s:%d" % (g, bound) for g in grow])
        res["obligations"] = total
        res["discharged"] = ok
        res["fails"] = fails
        # unwinding assertions of loops inside the library (not harness / model) with an input-derived bound are
        # findings for queries that declare so (memory-safety harnesses on arbitrary input: the loop runs past its input)
        for f in fails:
            if f["kind"] == "unwind" and q.lib_unwind_violation and (f.get("file") or "").startswith(REPO + "/"):
                f["kind"] = "property"
                f["desc"] = "loop exceeds the bound derived from the input size: " + f["desc"]
        real = [f for f in fails if f["kind"] in ("property",)]
        infra = [f for f in fails if f["kind"] in ("unwind", "nobody", "model")]
        if any(f["kind"] == "nobody" for f in infra):
            real = []     # a body-less callee invalidates everything downstream of it
        if infra and not real:
            res["status"] = "harness-error"
            res["error"] = "; ".join("%s %s" % (f["kind"], f["name"]) for f in infra)[:1500]
            return res
        if infra and real:
            # genuine failures plus bound/model failures on the same query: report the genuine ones
            fails = [f for f in fails if f["kind"] not in ("unwind", "nobody", "model")]
            res["fails"] = fails
            res["note"] = (res.get("note") or "") + " [also: " + "; ".join("%s %s" % (f["kind"], f["name"]) for f in infra)[:300] + "]"
        res["status"] = "fail" if fails else "pass"
        if not fails and ok != total:
            # some properties are neither SUCCESS nor FAILURE (UNKNOWN/ERROR): never a pass
            res["status"] = "cbmc-error"
            res["error"] = "%d of %d properties undecided" % (total - ok, total)
            return res
        # witness twin
        if not q.nowitness and not fails:
            gbw, err = build(q, wd, True)
            if err:
                res["status"] = "build-error"
                res["error"] = "witness: " + err
                return res
            cmdw = cbmc_cmd(q, gbw, True, solver)
            if res.get("auto_unwind"):
                i = cmdw.index("--unwindset") + 1
                cmdw[i] = cmdw[i] + "," + ",".join("%s:%d" % kv for kv in res["auto_unwind"].items())
            rc, out, err, secs = run(cmdw, timeout=tmo, mem_gb=MEM_GB)
            res["witness_s"] = round(secs, 2)
            reached = False
            if rc != -9:
                try:
                    for item in json.loads(out):
                        if "WITNESS" in (item.get("description") or "") and \
                                str(item.get("status")).lower() in ("failed", "failure"):
                            reached = True
                        for r in item.get("result", []) if isinstance(item.get("result"), list) else []:
                            if "WITNESS" in (r.get("description") or "") and r.get("status") == "FAILURE":
                                reached = True
                except Exception:
                    pass
            res["witness"] = reached
            if rc == -9:
                res["status"] = "timeout"      # witness twin undecided: inconclusive, not vacuous
            elif not reached:
                res["status"] = "vacuous"
        return res
    finally:
        res["seconds"] = round(time.time() - t0, 2)
        if not keep:
            for f in os.listdir(wd):
                if f.endswith(".gb"):
                    os.unlink(os.path.join(wd, f))
            sc = os.path.join(wd, "repo")
            if os.path.exists(sc):
                shutil.rmtree(sc)


def write_replay(pid, q, f, idx):
    """Materialise a counterexample: nondeterministic choices + native replay when possible."""
    rd = os.path.join(VERIF, "replay", pid, "%s-%d" % (q.name, idx))
    if os.path.exists(rd):
        shutil.rmtree(rd)
    os.makedirs(rd)
    vals = nd_values(f.get("trace"))
    with open(os.path.join(rd, "values.txt"), "w") as fh:
        for fn, v in vals:
            fh.write("%s %d\n" % (fn, v))
    info = {"property": pid, "query": q.name, "harness": q.harness, "defs": q.defs,
            "failed_property": f["name"], "description": f["desc"], "function": f["function"],
            "file": f.get("file"), "line": f.get("line"), "srcs": q.srcs,
            "choices": [[fn, v] for fn, v in vals]}
    json.dump(info, open(os.path.join(rd, "counterexample.json"), "w"), indent=1)
    # compact human-readable trace (assignments in library/harness code)
    with open(os.path.join(rd, "trace.txt"), "w") as fh:
        for st in f.get("trace") or []:
            if st.get("hidden"):
                continue
            loc = st.get("sourceLocation") or {}
            if loc.get("function") is None:
                continue
            if st.get("stepType") == "assignment":
                fh.write("%s:%s %s = %s\n" % (loc.get("function"), loc.get("line"), st.get("lhs"),
                                              (st.get("value") or {}).get("data")))
            elif st.get("stepType") == "function-call":
                fh.write("%s:%s CALL %s\n" % (loc.get("function"), loc.get("line"),
                                              (st.get("function") or {}).get("displayName")))
            elif st.get("stepType") == "failure":
                fh.write("FAILURE %s: %s\n" % (st.get("property"), st.get("reason")))
    native = None
    if q.native:
        native = native_replay(q, rd)
    info["native_replay"] = native
    json.dump(info, open(os.path.join(rd, "counterexample.json"), "w"), indent=1)
    sh = os.path.join(rd, "run.sh")
    with open(sh, "w") as fh:
        fh.write("#!/bin/sh\n# re-run the failing query (symbolic) and, where the harness supports it, "
                 "the native replay\ncd %s && python3 check.py check %s --only %s --keep\n" %
                 (VERIF, pid, q.name))
    os.chmod(sh, 0o755)
    return rd, native


def native_replay(q, rd):
    """Build the same harness natively (real glib, ASan+UBSan) and feed it the choices."""
    exe = os.path.join(rd, "replay.exe")
    inc = ["-I" + os.path.join(VERIF, "env"), "-I" + os.path.join(VERIF, "harness"), "-I" + REPO]
    srcs = [os.path.join(VERIF, "harness", q.harness), os.path.join(VERIF, "env", "replay.c"),
            os.path.join(VERIF, "env", "native_support.c")]
    for e in q.env:
        if e in ("nd.c", "glib_model.c", "libc_model.c", "log_model.c"):
            continue
        srcs.append(os.path.join(VERIF, "env", e))
    srcs += [os.path.join(REPO, s) for s in q.srcs]
    libs = subprocess.run(["pkg-config", "--libs", "glib-2.0"], capture_output=True,
                          text=True).stdout.split()
    cmd = (["gcc", "-std=gnu11", "-g", "-O0", "-w", "-fsanitize=address,undefined",
            "-fno-sanitize-recover=undefined", "-DVERIF_REPLAY", "-DVERIF_NATIVE"] +
           dflags(q.defs) + inc + GLIB_CFLAGS + srcs + ["-o", exe] + libs + ["-lyaml", "-lpthread"])
    rc, out, err, _ = run(cmd, timeout=300)
    if rc != 0:
        open(os.path.join(rd, "native_build.log"), "w").write(err[-6000:])
        return {"built": False}
    env = dict(os.environ)
    env["VERIF_VALUES"] = os.path.join(rd, "values.txt")
    env["ASAN_OPTIONS"] = "detect_leaks=0:abort_on_error=0"
    try:
        p = subprocess.run([exe], capture_output=True, text=True, timeout=60, env=env)
        rc, err = p.returncode, p.stderr
    except subprocess.TimeoutExpired:
        rc, err = -9, "TIMEOUT (hang reproduced?)"
    open(os.path.join(rd, "native_run.log"), "w").write("exit=%s\n%s" % (rc, err[-6000:]))
    try:
        os.unlink(exe)
    except OSError:
        pass
    return {"built": True, "exit": rc, "reproduced": rc not in (0, 3, 4, 5),
            "first_line": (err.strip().splitlines() or [""])[0][:300]}


def check(pid, tier, only=None, keep=False, verbose=False):
    t0 = time.time()
    mod = importlib.import_module("queries." + pid)
    queries = [q for q in mod.queries() if tier == "thorough" or q.tier == "quick"]
    if only:
        queries = [q for q in queries if only in q.name or (only.startswith("re:") and re.search(only[3:], q.name))]
    known, fixed = load_known()
    known_here = known.get(pid, [])
    global CACHE_DIR
    CACHE_DIR = os.path.join(BUILD, pid, "_objcache")
    if os.path.exists(CACHE_DIR):
        shutil.rmtree(CACHE_DIR)
    os.makedirs(CACHE_DIR)
    CACHE_DONE.clear()
    results = []
    with concurrent.futures.ThreadPoolExecutor(max_workers=JOBS) as ex:
        futs = {ex.submit(run_query, pid, q, tier, keep, verbose): q for q in queries}
        for fu in concurrent.futures.as_completed(futs):
            q = futs[fu]
            try:
                r = fu.result()
            except Exception as e:  # noqa
                r = {"query": q.name, "status": "runner-error", "error": repr(e), "required": q.required,
                     "fails": [], "obligations": 0, "discharged": 0, "seconds": 0, "defs": q.defs}
            r["_q"] = q
            results.append(r)
            if verbose:
                print("  [%s] %-40s %-14s %6.1fs %s" % (pid, r["query"], r["status"], r["seconds"],
                                                      (r.get("error") or "")[:300].replace("\n", " ")),
                      flush=True)
    results.sort(key=lambda r: r["query"])
    violations = []
    known_hits = {}
    broken = []
    inconclusive_stretch = []
    nvi = 0
    seen_sites = set()
    for r in results:
        q = r["_q"]
        st = r["status"]
        if st in ("cbmc-error", "harness-error") and not q.required:
            inconclusive_stretch.append(r["query"])     # stretch goal beyond the resources / bounds: never counts
        elif st in ("build-error", "cbmc-error", "harness-error", "vacuous", "runner-error"):
            broken.append("%s: %s %s" % (r["query"], st, (r.get("error") or "")[:400]))
        elif st == "timeout":
            if q.required:
                broken.append("%s: timeout (required query inconclusive)" % r["query"])
            else:
                inconclusive_stretch.append(r["query"])
        elif st == "fail":
            for f in r["fails"]:
                if f["kind"] == "ptrarith":
                    continue  # reported separately in evidence, never exit 1 (DESIGN 1)
                key = finding_key(f)
                if (r["query"], key) in seen_sites:
                    continue
                seen_sites.add((r["query"], key))
                hit = None
                for site, text in known_here:
                    if site == key:
                        hit = (site, text)
                if hit:
                    known_hits.setdefault(hit, []).append(r["query"])
                else:
                    nvi += 1
                    per_q = sum(1 for v in violations if v[0] == r["query"])
                    if per_q < 2:
                        rd, native = write_replay(pid, q, f, nvi)
                    else:
                        rd, native = violations[-1][2], None
                    violations.append((r["query"], f, rd, native))
            if all(f["kind"] == "ptrarith" for f in r["fails"]):
                r["status"] = "pass-ptrarith-only"
        if q.expect_fail and st == "pass":
            r["expected_failure_absent"] = True
    wall = time.time() - t0
    shutil.rmtree(CACHE_DIR, ignore_errors=True)
    # ---------- evidence ----------
    evaluations = sum(1 for r in results if r["status"] in ("pass", "fail", "pass-ptrarith-only"))
    nontrivial = len(set(r["query"] for r in results if r.get("witness") or r["status"] == "fail"))
    samples = []
    for r in results:
        samples.append({"query": r["query"], "harness": r.get("harness"), "shape": r.get("defs"),
                        "unwind": r.get("unwind"), "unwindset": r.get("unwindset"),
                        "verdict": r["status"], "witness_reachable": r.get("witness"),
                        "solver": r.get("solver"), "solver_s": r.get("solver_s"),
                        "witness_s": r.get("witness_s"), "total_s": r.get("seconds"),
                        "cbmc_properties": r.get("obligations"), "cbmc_properties_ok": r.get("discharged"),
                        "required": r.get("required"), "note": r.get("note"), "auto_unwind": r.get("auto_unwind"),
                        "units": r.get("srcs"), "scaled": r.get("scaled") or None,
                        "failed": [finding_key(f) for f in r.get("fails", [])][:10] or None})
    # large runs: full detail for every query that did not simply pass plus an evenly spaced selection of the rest;
    # every query still appears in "all_queries" with verdict and time
    all_queries = [[x["query"], x["verdict"], x["total_s"]] for x in samples]
    SAMPLE_CAP = 200
    if len(samples) > SAMPLE_CAP:
        odd = [x for x in samples if x["verdict"] != "pass"][:SAMPLE_CAP]
        rest = [x for x in samples if x["verdict"] == "pass"]
        room = max(SAMPLE_CAP - len(odd), 20)
        step = max(1, len(rest) // room)
        samples = odd + rest[::step][:room]
    meta = getattr(mod, "META", {})
    ev = {
        "property_id": pid, "tier": tier, "seed": int(os.environ.get("VERIF_SEED", "0")),
        "level": "model_checking",
        "coverage": {
            "evaluations": evaluations,
            "distinct_nontrivial": nontrivial,
            "rule": "one evaluation = one CBMC query (harness x concrete shape, all contents symbolic) "
                    "decided by the SAT back end; non-trivial = its witness twin (same harness with "
                    "every property assertion turned into an assumption and a final assert(0)) was "
                    "reachable, i.e. assumptions satisfiable and the assertions actually reached",
            "samples": samples,
            "all_queries": all_queries,
            "obligations": sum(r.get("obligations", 0) for r in results),
            "discharged": sum(r.get("discharged", 0) for r in results),
            "checker_cmd": "goto-cc + goto-instrument + cbmc 6.11 (see samples[].query; "
                           "python3 check.py check %s --tier %s -v)" % (pid, tier),
            "trusted_base": ["cbmc 6.11.0 / cadical / kissat", "environment model in /verif/env "
                             "(glib subset, pthread lock monitor, libc string loops, clock)",
                             "reference models in /verif/harness/ref_*.h"],
            "functions_encoded": meta.get("functions", []),
            "bounds": meta.get("bounds", ""),
            "stubs": meta.get("stubs", []),
            "outside_claim": meta.get("outside", []),
            "solver_time_s": round(sum((r.get("solver_s") or 0) + (r.get("witness_s") or 0)
                                       for r in results), 1),
            "inconclusive_stretch": inconclusive_stretch,
            "known_findings_hit": [{"site": k[0], "text": k[1], "queries": v}
                                   for k, v in known_hits.items()],
            "broken": broken,
            "repo": REPO,
        },
        "assumptions": meta.get("assumes", []) + [
            "malloc never fails (--no-malloc-may-fail)",
            "bounded: every loop unwound to the stated bound with unwinding assertions on",
        ],
        "wall_s": round(wall, 1),
        "violations": len(violations),
    }
    os.makedirs(os.path.join(VERIF, "evidence"), exist_ok=True)
    evpath = os.path.join(VERIF, "evidence", pid + ".json")
    if only:   # partial runs never overwrite the property's evidence file
        os.makedirs(os.path.join(BUILD, pid), exist_ok=True)
        evpath = os.path.join(BUILD, pid, "evidence-partial.json")
    json.dump(ev, open(evpath, "w"), indent=1, default=str)
    # ---------- report ----------
    for (site, text), qs in sorted(known_hits.items()):
        print("KNOWN-FINDING: property=%s %s [site %s; queries %s]" % (pid, text, site, ",".join(qs[:3])))
    for r in results:
        if r.get("expected_failure_absent"):
            print("NOTE: query %s was expected to exhibit known finding %s but passed" %
                  (r["query"], r["_q"].expect_fail))
    for qn, f, rd, native in violations:
        rep = ""
        if native is not None:
            rep = " native_replay=%s" % ("reproduced" if native.get("reproduced") else
                                         ("not-built" if not native.get("built") else "not-reproduced"))
        print("VIOLATION property=%s replay=%s query=%s site=%s%s" % (pid, rd, qn, finding_key(f)[:300], rep))
    npass = sum(1 for r in results if r["status"].startswith("pass"))
    print("%s %s: %d queries, %d pass, %d fail, %d broken, %d stretch-inconclusive, %.0fs" %
          (pid, tier, len(results), npass, sum(1 for r in results if r["status"] == "fail"),
           len(broken), len(inconclusive_stretch), wall))
    if violations:
        return 1
    if broken:
        for b in broken:
            print("BROKEN " + b)
        return 2
    return 0


def main():
    sys.path.insert(0, VERIF)
    a = sys.argv[1:]
    if not a:
        print(__doc__)
        return 2
    if a[0] == "setup":
        for t in ("cbmc", "goto-cc", "goto-instrument", "gcc"):
            if not shutil.which(t):
                print("missing tool", t)
                return 2
        os.makedirs(BUILD, exist_ok=True)
        print("setup ok")
        return 0
    if a[0] == "list":
        ids = a[1:] or sorted(f[:-3] for f in os.listdir(os.path.join(VERIF, "queries"))
                              if re.match(r"C\d+\.py$", f))
        for pid in ids:
            mod = importlib.import_module("queries." + pid)
            for q in mod.queries():
                print(pid, q.tier, q.name, q.defs)
        return 0
    if a[0] == "check":
        pid = a[1]
        tier = os.environ.get("VERIF_TIER", "quick")
        only = None
        keep = "--keep" in a
        verbose = "-v" in a
        if "--tier" in a:
            tier = a[a.index("--tier") + 1]
        if "--only" in a:
            only = a[a.index("--only") + 1]
        return check(pid, tier, only, keep, verbose)
    print(__doc__)
    return 2


if __name__ == "__main__":
    sys.exit(main())
