#!/usr/bin/env python3
"""writes MANIFEST.json from the table below (kept in one place so it stays valid)"""
import json, os
V = os.path.dirname(os.path.abspath(__file__))
CHECKS = {
 "C03": ("Inductive step of the per-node budget machine (bidib_node_try_send / bidib_node_state_update incl. expiry and release of held messages) from an arbitrary valid node state with <=3 outstanding and <=2 held messages, all request/answer types, clock values; bounded histories from the real initial state.", "DESIGN 4/C03"),
}
NA = {}
def main():
    checks = []
    for pid, (text, ref) in sorted(CHECKS.items()):
        checks.append({
            "property_id": pid,
            "quick_cmd": "python3 check.py check %s --tier quick" % pid,
            "thorough_cmd": "python3 check.py check %s --tier thorough" % pid,
            "evidence_file": "evidence/%s.json" % pid,
            "replay_cmd_template": "sh {path}/run.sh",
            "engine": "cbmc",
            "level_claimed": {"category": "model_checking", "text": "Bounded symbolic model checking of the real C translation units with CBMC 6.11 (SAT): " + text + " Holds for every value inside the stated bounds; nothing is claimed outside them.", "design_ref": ref},
            "level_note": "Trusted: CBMC + SAT back end, the environment model in /verif/env (glib subset, pthread lock monitor, libc loops, clock), the reference oracles in /verif/harness. malloc never fails. Real thread interleavings are not encoded (lock-granularity sequentialisation only).",
            "technique": "CBMC bounded symbolic execution of the real sources + SAT (cadical/kissat), witness twin against vacuity, native ASan replay of counterexamples",
        })
    m = {
        "version": 1,
        "setup_cmd": "python3 check.py setup",
        "hooks": {"guard": "LIBBIDIB_VERIF", "enable": "no source hooks are needed: harnesses #include the repository's .c files to reach statics and link the remaining units unmodified (goto-cc)", "baseline_off_cmd": "cmake --build /repo/_build && ctest --test-dir /repo/_build -j8 --timeout 900", "source_commits": [], "add_only": True},
        "engines": [{"name": "cbmc", "path": "check.py", "serves_properties": sorted(CHECKS), "kind_free_text": "goto-cc/goto-instrument/cbmc 6.11 bounded symbolic model checking of the real sources, one query per harness x shape, 16-way parallel"}],
        "checks": checks,
        "notes": "See DESIGN.md. known_findings.txt lists repaired defects (fixed:) and recorded ones (known:).",
        "not_applicable": [{"property_id": k, "reason": v} for k, v in sorted(NA.items())],
    }
    json.dump(m, open(os.path.join(V, "MANIFEST.json"), "w"), indent=1)
if __name__ == "__main__":
    main()
