#!/usr/bin/env python3
"""writes MANIFEST.json from the table below (kept in one place so it stays valid)"""
import json, os
V = os.path.dirname(os.path.abspath(__file__))
CHECKS = {
 "C01": ("Flush framing by the real bidib_flush_impl against a reference encoder for every payload of 1..12 (thorough ..40) bytes and with the staging buffer scaled to 8-13 bytes (split branches); batching through the real bidib_add_to_buffer for message-length shapes around the capacity edges with any announced capacity; message layout of bidib_buffer_message_with/without_data for data 0..121 bytes, depth 0..3.", "DESIGN 4/C01"),
 "C02": ("Differential check of the real receiver framing loop against a reference decoder for EVERY byte stream of <=8 (thorough <=12) bytes; bidib_split_packet on packets of 1..3 well-formed messages (dispatch order, private copies, address/seq/type, receive sequence re-synchronisation).", "DESIGN 4/C02"),
 "C04": ("Inductive step units of the stall machine (try_send, try_queued_messages, update_stall, state_update) from an arbitrary invariant-satisfying forest of 3-4 nodes incl. the root interface: nothing sent below a stalled node, FIFO release, re-registration with a still-stalled ancestor, not stranded.", "DESIGN 4/C04"),
 "C05": ("Send sequence counter over all 255 values x 2 nodes incl. wrap and reset; two (three) virtual threads running the real send functions interleaved at lock acquisitions (stack-shaped schedules): wire order == sequence order per node.", "DESIGN 4/C05"),
 "C06": ("Real dispatcher on one message of every type code, debug and normal mode, against routing tables parsed from README.md at run time; field extraction per message layout; ownership via double-free and leak checks; queue bound/drop-oldest/FIFO/once-only at the literal bound 128 and, with full read-back, at scaled bounds 2-4.", "DESIGN 4/C06"),
 "C08": ("Occupied/free, multiple and address reports with arbitrary payloads on a world of 3 segments over 2 boards and 1-2 trains: segment lists == reference, train on-track/orientation/position derived from the lists, one critical section; the position getter as its own unit on arbitrary lists.", "DESIGN 4/C08"),
 "C13": ("Section parsers (aspect, dcc aspect port, calibration; thorough: all 16 parser entry points incl. the three file parsers) on EVERY well-nested yaml event sequence of <= K events with scalars from the section vocabulary, malformed numbers and arbitrary short strings: no invalid pointer use, every event deleted once, locks released, clean-up afterwards; string converters on arbitrary strings. Start/stop failure path: C16.", "DESIGN 4/C13"),
 "C14": ("Uniqueness rules of every bidib_state_add_* function (ids per kind, unique ids, dcc addresses shared between trains and accessories) on an arbitrary configured world with an arbitrary new entity; real aspect / calibration / train-function record parsers on concrete skeletons with symbolic values: accepted iff well-formed and unambiguous, stored as declared; every enumeration getter returns exactly the declared items incl. boosters / track outputs from the class bits and the connected_* variants.", "DESIGN 4/C14"),
 "C15": ("Real node-table enumeration (bidib_state_init_allocation_table / query_nodetab) against a simulated bus answering the real NODETAB requests for 4 tree shapes over 3 levels with arbitrary unique ids vs 2 configured boards, with a table-change notice injected after any of the first 5 requests; one arbitrary NODE_NEW/NODE_LOST vs reference subtree semantics; is_subnode as a total function.", "DESIGN 4/C15"),
 "C16": ("Real bidib_start_pointer / bidib_stop over 2-3 consecutive sessions with arbitrary mode, flush interval, config validity and interface answer, incl. start-while-running and stop-while-stopped: exact shutdown event order, every created thread handle joined exactly once (handle monitor), failed start leaves the library stopped, process-lifetime globals restored; the real zero-speed step over 2 boards x 2 trains.", "DESIGN 4/C16"),
 "C17": ("Every public getter called twice on an arbitrary state with an arbitrary <=2-character (or NULL) id: results field-wise equal (CBMC's nondeterministic uninitialised memory makes any indeterminate flag/count/pointer/known-value differ), still valid after bidib_state_free (deep copy), freed once each with the documented free function (invalid/double free checks); bidib_get_state vs every single-entity getter, all fields.", "DESIGN 4/C17"),
 "C18": ("One generated harness per public bidib_send_* (prototypes and documented ranges parsed from include/lowlevel/*.h at run time): every scalar parameter over its full range, payload sizes 0..max+1: 0 or 1 message, type < 0x80, destination, data == specified encoding, length byte <= 127 and consistent, rejected iff outside the documented range, every byte determined by the arguments (double-call), no out-of-bounds access to caller buffers.", "DESIGN 4/C18"),
 "C07": ("Per-message equality of the real state setters with a reference transformer (written from the BiDiB message layouts: current-code table, DCC speed byte, function groups, time bytes, diagnostic (key,value) pairs in any order) on an ARBITRARY pre-state of a built configuration, including the frame condition (everything not named is unchanged); conversions as total functions over all 256 inputs. Arbitrary pre-state makes the per-message result inductive over histories of any length.", "DESIGN 4/C07"),
 "C09": ("Every high-level command (switch_point, set_signal, set_peripheral, train speed / calibrated / emergency stop, train peripheral, booster, track output state (_all), request reverser) over a built board+train with symbolic configuration values and argument ids given as arbitrary <=2-character strings: return value, exactly the prescribed captured message(s) with destination/encoding, optimistic state delta, nothing on return 1, locks released.", "DESIGN 4/C09"),
 "C11": ("Lock monitor (balance, self-deadlock, global rank order of all 15+1 locks) over every public high-level command, admin command, state setter, configuration-time add-function and the receiver-side entry points, on an arbitrary state with arbitrary ids; thorough adds every getter, the occupancy handlers and the composed dispatcher.", "DESIGN 4/C11"),
 "C19": ("Real dispatcher + real mirror encoders + real message construction for occupied / free / multiple (every bitmap size 8..128) / position reports from an arbitrary node against two boards with arbitrary connected / SecAck flags: exactly one mirror to the reporting board with identical number and payload, flushed in the same call; none otherwise.", "DESIGN 4/C19"),
 "C12": ("CBMC pointer/bounds/overflow checks over the three stages of the uplink path with ARBITRARY inputs: every stream of <=8 bytes (+ scaled read buffer for the overflow edge), every packet of <=10 bytes through bidib_split_packet, every exact-size message of 0..9 data bytes of every type through the dispatcher; termination via unwinding assertions.", "DESIGN 4/C12"),
 "C03": ("Inductive step of the per-node budget machine (bidib_node_try_send / bidib_node_state_update incl. expiry and release of held messages) from an arbitrary valid node state with <=3 outstanding and <=2 held messages, all request/answer types, clock values; bounded histories from the real initial state.", "DESIGN 4/C03"),
}
ALL = ["C%02d" % i for i in range(1, 21)]
CHECKS["C20"] = ("Real bidib_send_sys_reset step order (RESET first, features before SYS_ENABLE, then GO, occupancy query, initial values last); real bidib_state_set_board_features against a simulated bus: exactly the configured feature settings to each connected board, none elsewhere; real bidib_state_set_initial_values through the real high-level commands: one command per initial point / signal / peripheral and per train function per track output, encoded as the high-level command prescribes, nothing for disconnected boards.", "DESIGN 4/C20")
CHECKS["C10"] = ("Lock-discipline obligations decided by the solver on every caller harness: (1) each of the 34 documented 'Shall only be called with X acquired' preconditions (parsed from the headers at run time) is asserted by a generated shim in front of the real accessor, for all commands, feedback handlers and getters; (2) every access to the node state table, the per-node queues and the uplink queues happens with the guarding mutex held (container tags in the glib model); (3) getters take each lock at most once (C17). Race freedom under real parallel execution is inferred from these by the lockset argument, not encoded.", "DESIGN 4/C10")
NA = {}
def main():
    for k in ALL:
        if k not in CHECKS and k not in NA:
            NA[k] = "no check committed yet (work in progress, see DESIGN.md section 4 for the planned harness); not claimed"
    checks = []
    for pid, (text, ref) in sorted(CHECKS.items()):
        checks.append({
            "property_id": pid,
            "quick_cmd": "python3 check.py check %s --tier quick" % pid,
            "thorough_cmd": "python3 check.py check %s --tier thorough" % pid,
            "evidence_file": "evidence/%s.json" % pid,
            "replay_cmd_template": "sh {path}/run.sh",
            "engine": "cbmc",
            "level_claimed": {"category": "model_checking", "text": "Bounded symbolic model checking of the real C translation units with CBMC 6.11 (SAT): " + text + " Holds for every value inside the stated bounds; nothing is claimed outside them.", "design_ref": ref},
            "level_note": "Trusted: CBMC + SAT back end, the environment model in /verif/env (glib subset, pthread lock monitor, libc loops, clock), the reference oracles in /verif/harness. malloc never fails. Real thread interleavings are not encoded (lock-granularity sequentialisation only).",
            "technique": "CBMC bounded symbolic execution of the real sources + SAT (cadical/kissat), witness twin against vacuity, native ASan replay of counterexamples",
        })
    m = {
        "version": 1,
        "setup_cmd": "python3 check.py setup",
        "hooks": {"guard": "LIBBIDIB_VERIF", "enable": "no source hooks are needed: harnesses #include the repository's .c files to reach statics and link the remaining units unmodified (goto-cc)", "baseline_off_cmd": "cmake --build /repo/_build && ctest --test-dir /repo/_build -j8 --timeout 900", "source_commits": [], "add_only": True},
        "engines": [{"name": "cbmc", "path": "check.py", "serves_properties": sorted(CHECKS), "kind_free_text": "goto-cc/goto-instrument/cbmc 6.11 bounded symbolic model checking of the real sources, one query per harness x shape, 16-way parallel"}],
        "checks": checks,
        "notes": "See DESIGN.md. known_findings.txt lists repaired defects (fixed:) and recorded ones (known:).",
        "not_applicable": [{"property_id": k, "reason": v} for k, v in sorted(NA.items())],
    }
    json.dump(m, open(os.path.join(V, "MANIFEST.json"), "w"), indent=1)
if __name__ == "__main__":
    main()
