/* C02-S2 (MODE 0) and C12-H2 (MODE 1): bidib_split_packet.
 *
 * unit (real code): src/transmission/bidib_transmission_receive.c (included): bidib_split_packet;
 *                   bidib_transmission_util.c (extractors), bidib_transmission_node_states.c (receive sequence
 *                   numbers, real), bidib_transmission_responses.c
 * stubs:            bidib_handle_received_message -> recorder that takes ownership (frees) like the real one;
 *                   bidib_node_state_update -> returns a recognisable action id (both via --replace-calls)
 * MODE 0 input:     packet = NM well-formed messages  LEN ADDR(depth D_i) 0 SEQ TYPE DATA(DL_i)  with concrete
 *                   shape and arbitrary bytes (address bytes non-zero), arbitrary stored receive counter.
 * MODE 0 oracle:    dispatcher called NM times, in order, each with a private heap copy byte-identical to the
 *                   message and with the sender address / sequence number / type the peer encoded; an
 *                   unexpected sequence number only re-synchronises the stored expectation (next = seq+1, 255->1).
 * MODE 1 input:     ARBITRARY packet bytes of length PL (CRC-valid adversarial packets): memory safety only
 *                   (CBMC pointer/bounds checks), every malloc'ed message handed over or freed.
 */
#include "verif.h"
#include "verif_glib.h"
#include "ref_bidib.h"
#include "src/transmission/bidib_transmission_receive.c"

#ifndef MODE
#define MODE 0
#endif
#ifndef NM
#define NM 2
#endif
#ifndef D1
#define D1 0
#endif
#ifndef D2
#define D2 1
#endif
#ifndef D3
#define D3 0
#endif
#ifndef DL1
#define DL1 0
#endif
#ifndef DL2
#define DL2 1
#endif
#ifndef DL3
#define DL3 0
#endif
#ifndef PL
#define PL 6
#endif

volatile bool bidib_running, bidib_discard_rx, bidib_lowlevel_debug_mode, bidib_seq_num_enabled;
void bidib_add_to_buffer(const uint8_t *const m) { (void)m; }
void bidib_flush(void) { }

#define H_MAX 8
static int h_n;
static uint8_t h_type[H_MAX], h_seq[H_MAX], h_addr[H_MAX][4], h_len0[H_MAX];
static unsigned h_aid[H_MAX];
static bool h_private[H_MAX], h_bytes_ok[H_MAX];
static const uint8_t *pk_base; static size_t pk_size;
static const uint8_t *exp_ptr[H_MAX]; static size_t exp_len[H_MAX];
void verif_handle_stub(uint8_t *message, uint8_t type, const uint8_t *const addr_stack, uint8_t seqnum,
                       unsigned int action_id) {
	VASSUME(h_n < H_MAX);
	h_type[h_n] = type; h_seq[h_n] = seqnum; h_aid[h_n] = action_id;
	for (int i = 0; i < 4; i++) h_addr[h_n][i] = addr_stack[i];
#if MODE == 0
	h_len0[h_n] = message[0];
	h_private[h_n] = !__CPROVER_same_object(message, pk_base);
	bool ok = true;
	for (size_t i = 0; i < 16; i++) {
		if (i < exp_len[h_n] && message[i] != exp_ptr[h_n][i]) ok = false;
	}
	h_bytes_ok[h_n] = ok;
#endif
	h_n++;
	free(message);             /* ownership passes to the dispatcher */
}
static uint8_t upd_addr[H_MAX][4], upd_type[H_MAX]; static int upd_n;
unsigned int verif_update_stub(const uint8_t *const addr_stack, uint8_t response_type) {
	VASSUME(upd_n < H_MAX);
	for (int i = 0; i < 4; i++) upd_addr[upd_n][i] = addr_stack[i];
	upd_type[upd_n] = response_type;
	upd_n++;
	return 100 + (unsigned)upd_n;
}

static uint8_t next_seq(uint8_t v) { return v == 255 ? 1 : (uint8_t)(v + 1); }

void harness(void) {
	bidib_node_state_table_init();
#if MODE == 0
	static const int D[3] = {D1, D2, D3}, DL[3] = {DL1, DL2, DL3};
	uint8_t pk[64];
	size_t off = 0;
	uint8_t m_addr[NM][4], m_seq[NM], m_type[NM];
	for (int k = 0; k < NM; k++) {
		size_t start = off;
		pk[off++] = (uint8_t)(D[k] + 3 + DL[k]);
		for (int i = 0; i < 4; i++) m_addr[k][i] = 0;
		for (int i = 0; i < D[k]; i++) { uint8_t a = ND_u8("addr"); VASSUME(a != 0); m_addr[k][i] = a; pk[off++] = a; }
		pk[off++] = 0;
		m_seq[k] = ND_u8("seq"); pk[off++] = m_seq[k];
		m_type[k] = ND_u8("type"); pk[off++] = m_type[k];
		for (int i = 0; i < DL[k]; i++) pk[off++] = ND_u8("data");
		exp_ptr[k] = &pk[start]; exp_len[k] = off - start;
	}
	/* arbitrary stored expectation for the first sender */
	uint8_t stored = ND_u8("stored_rx_seq"); VASSUME(stored != 0);
	bidib_node_state_set_receive_seqnum(m_addr[0], stored);
	pk_base = pk; pk_size = off;

	bidib_split_packet(pk, off);

	VASSERT(h_n == NM, "every message of the packet is dispatched exactly once");
	VASSERT(upd_n == NM, "the node state is told about every received message");
	for (int k = 0; k < NM; k++) {
		if (k >= h_n) continue;
		VASSERT(h_private[k], "dispatcher gets a private heap copy");
		VASSERT(h_bytes_ok[k] && h_len0[k] == exp_len[k] - 1, "copy is byte-identical to the message, in stream order");
		VASSERT(h_type[k] == m_type[k], "type as encoded");
		VASSERT(h_seq[k] == m_seq[k] || (m_seq[k] != 0 && h_seq[k] == next_seq(m_seq[k])), "sequence number as encoded");
		VASSERT(h_addr[k][0] == m_addr[k][0] && h_addr[k][1] == m_addr[k][1] && h_addr[k][2] == m_addr[k][2] && h_addr[k][3] == 0,
		        "sender address as encoded");
		VASSERT(upd_type[k] == m_type[k] && upd_addr[k][0] == m_addr[k][0] && upd_addr[k][1] == m_addr[k][1] &&
		        upd_addr[k][2] == m_addr[k][2], "node state updated for the sender with the message type");
		VASSERT(h_aid[k] == 101 + (unsigned)k, "action id of the answered request is passed on");
	}
#if NM == 1
	/* (the dispatcher's seqnum PARAMETER is used for log text only; after a mismatch the library passes
	 * seq+1 there - recorded as an observation in DESIGN.md, not a violation: the message bytes, which are
	 * what bidib_read_message and the state layer see, carry the number as encoded - checked above) */
	/* stored expectation afterwards */
	if (m_seq[0] != 0) {
		uint8_t now = bidib_node_state_get_and_incr_receive_seqnum(m_addr[0]);
		VASSERT(now == next_seq(m_seq[0]), "expectation re-synchronised to the received number + 1 (255 -> 1), match or not");
	} else {
		uint8_t now = bidib_node_state_get_and_incr_receive_seqnum(m_addr[0]);
		VASSERT(now == stored, "sequence number 0 (numbering off) leaves the expectation alone");
	}
#endif
#else
	uint8_t *pk = malloc(PL);
	for (int i = 0; i < PL; i++) pk[i] = ND_u8("byte");
	bidib_split_packet(pk, PL);
	free(pk);
	bidib_node_state_table_free();   /* so that --memory-leak-check sees only what the unit leaks */
#endif
	VASSERT(verif_all_free(), "locks released");
	VWITNESS();
}
