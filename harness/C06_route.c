/* C06-H1 routing / field extraction, C12-H3 (MODE_SHORT): the uplink dispatcher.
 *
 * unit (real code): src/transmission/bidib_transmission_receive.c (included): bidib_handle_received_message,
 *                   the three uplink queues, bidib_read_message / _error_message / _intern_message, log helpers;
 *                   bidib_transmission_util.c, bidib_transmission_message_string_mapping.c
 * stubs:            every bidib_state_* setter, bidib_send_*, bidib_flush, bidib_node_update_stall,
 *                   bidib_state_packet_capacity -> recording stubs (their behaviour is C07/C19/C04/C01);
 *                   bidib_state_get_board_ref_by_nodeaddr -> a board with arbitrary secack_on, or NULL
 * input:            one heap message of exactly message[0]+1 bytes: address depth DEPTH (shape), arbitrary type
 *                   (all 256), DLEN data bytes, all bytes arbitrary; normal or debug mode (solver's choice)
 * oracle:           ref_route(): README tables (generated from /repo/README.md at run time into readme_route.h)
 *                   + the startup-dialogue types + the state-bearing kinds; exactly one destination; the
 *                   queue entry is the very same heap buffer with unchanged bytes; ownership via CBMC's
 *                   double-free / deallocated-object checks and --memory-leak-check after draining the queues
 *                   through the real read functions; state stubs called exactly once with the fields at the
 *                   offsets the BiDiB message layouts prescribe.
 */
#include "verif.h"
#include "verif_glib.h"
#include "ref_bidib.h"
#include "src/transmission/bidib_transmission_receive.c"
#include "readme_route.h"   /* generated: static bool readme_error_queue(uint8_t), readme_message_queue(uint8_t) */

#ifndef DEPTH
#define DEPTH 0
#endif
#ifndef DLEN
#define DLEN 9
#endif

volatile bool bidib_running, bidib_discard_rx, bidib_lowlevel_debug_mode, bidib_seq_num_enabled;
pthread_rwlock_t bidib_trains_rwlock, bidib_boards_rwlock;
pthread_mutex_t trackstate_accessories_mutex, trackstate_peripherals_mutex, trackstate_segments_mutex,
	trackstate_reversers_mutex, trackstate_trains_mutex, trackstate_boosters_mutex,
	trackstate_track_outputs_mutex;

/* ---- recording stubs ---- */
enum { S_NONE, S_PKTCAP, S_NODE_LOST, S_NODE_NEW, S_STALL, S_CS_STATE, S_DRIVE_ACK, S_ACC_ACK, S_CS_DRIVE,
       S_ACC_MANUAL, S_LC_STAT, S_LC_WAIT, S_BM_OCC, S_BM_MULTIPLE, S_BM_CONF, S_BM_ADDRESS, S_BM_CURRENT,
       S_BM_SPEED, S_BM_DYN, S_BOOST_DIAG, S_ACC_STATE, S_BOOST_STATE, S_VENDOR };
static int st_calls, st_id;
static unsigned st_a[14];
static const uint8_t *st_ptr;
static bool st_locks_ok = true;
/* handlers that document no lock precondition are entered with no lock held (so that the lock order of
 * dispatcher + handler is the one the per-handler harnesses C07/C08 verify) */
static void rec(int id) {
	st_calls++; st_id = id;
	if (id != 7 /*S_ACC_ACK*/ && id != 8 /*S_CS_DRIVE*/ && id != 9 /*S_ACC_MANUAL*/ && !verif_all_free()) st_locks_ok = false;
}
/* MODE_SHORT (C12-H3): pointer-taking handlers read exactly the range their contract allows */
static unsigned touch_sum;
static void touch(const uint8_t *p, size_t n) {
#ifdef MODE_SHORT
	for (size_t i = 0; i < 40; i++) if (i < n) touch_sum += p[i];
#else
	(void)p; (void)n;
#endif
}
#define NODE3(n) st_a[0] = (n).top; st_a[1] = (n).sub; st_a[2] = (n).subsub

void bidib_state_packet_capacity(uint8_t c) { rec(S_PKTCAP); st_a[0] = c; }
void bidib_state_node_lost(t_bidib_unique_id_mod u) {
	rec(S_NODE_LOST); st_a[3] = u.class_id; st_a[4] = u.class_id_ext; st_a[5] = u.vendor_id; st_a[6] = u.product_id1;
	st_a[7] = u.product_id2; st_a[8] = u.product_id3; st_a[9] = u.product_id4;
}
void bidib_state_node_new(t_bidib_node_address n, uint8_t local, t_bidib_unique_id_mod u) {
	rec(S_NODE_NEW); NODE3(n); st_a[10] = local; st_a[3] = u.class_id; st_a[4] = u.class_id_ext; st_a[5] = u.vendor_id;
	st_a[6] = u.product_id1; st_a[7] = u.product_id2; st_a[8] = u.product_id3; st_a[9] = u.product_id4;
}
void bidib_node_update_stall(const uint8_t *const a, uint8_t s) { rec(S_STALL); st_a[0] = a[0]; st_a[1] = a[1]; st_a[2] = a[2]; st_a[3] = s; }
void bidib_state_cs_state(t_bidib_node_address n, uint8_t s, unsigned int aid) { rec(S_CS_STATE); NODE3(n); st_a[3] = s; st_a[4] = aid; }
void bidib_state_cs_drive_ack(t_bidib_dcc_address d, uint8_t ack, unsigned int aid) { rec(S_DRIVE_ACK); st_a[0] = d.addrl; st_a[1] = d.addrh; st_a[2] = ack; st_a[3] = aid; }
void bidib_state_cs_accessory_ack(t_bidib_node_address n, t_bidib_dcc_address d, uint8_t ack) {
	rec(S_ACC_ACK); NODE3(n); st_a[3] = d.addrl; st_a[4] = d.addrh; st_a[5] = ack;
	if (!verif_held_w(L_ACCESSORIES) || !verif_held(L_BOARDS_RW)) st_locks_ok = false;
}
void bidib_state_cs_drive(t_bidib_cs_drive_mod p) {
	rec(S_CS_DRIVE); st_a[0] = p.dcc_address.addrl; st_a[1] = p.dcc_address.addrh; st_a[2] = p.dcc_format; st_a[3] = p.active;
	st_a[4] = p.speed; st_a[5] = p.function1; st_a[6] = p.function2; st_a[7] = p.function3; st_a[8] = p.function4;
	if (!verif_held_w(L_TRAINS_RW)) st_locks_ok = false;
}
void bidib_state_cs_accessory_manual(t_bidib_node_address n, t_bidib_dcc_address d, uint8_t data) {
	rec(S_ACC_MANUAL); NODE3(n); st_a[3] = d.addrl; st_a[4] = d.addrh; st_a[5] = data;
	if (!verif_held_w(L_ACCESSORIES) || !verif_held(L_BOARDS_RW)) st_locks_ok = false;
}
void bidib_state_lc_stat(t_bidib_node_address n, t_bidib_peripheral_port p, uint8_t s, unsigned int aid) { rec(S_LC_STAT); NODE3(n); st_a[3] = p.port0; st_a[4] = p.port1; st_a[5] = s; st_a[6] = aid; }
void bidib_state_lc_wait(t_bidib_node_address n, t_bidib_peripheral_port p, uint8_t t) { rec(S_LC_WAIT); NODE3(n); st_a[3] = p.port0; st_a[4] = p.port1; st_a[5] = t; }
void bidib_state_bm_occ(t_bidib_node_address n, uint8_t num, bool occ) { rec(S_BM_OCC); NODE3(n); st_a[3] = num; st_a[4] = occ; }
void bidib_state_bm_multiple(t_bidib_node_address n, uint8_t num, uint8_t size, const uint8_t *const d) { rec(S_BM_MULTIPLE); NODE3(n); st_a[3] = num; st_a[4] = size; st_ptr = d; touch(d, ((size_t)size + 7) / 8); }
void bidib_state_bm_confidence(t_bidib_node_address n, uint8_t v, uint8_t f, uint8_t s, unsigned int aid) { rec(S_BM_CONF); NODE3(n); st_a[3] = v; st_a[4] = f; st_a[5] = s; st_a[6] = aid; }
void bidib_state_bm_address(t_bidib_node_address n, uint8_t num, uint8_t cnt, const uint8_t *const a) { rec(S_BM_ADDRESS); NODE3(n); st_a[3] = num; st_a[4] = cnt; st_ptr = a; touch(a, 2 * (size_t)cnt); }
void bidib_state_bm_current(t_bidib_node_address n, uint8_t num, uint8_t c) { rec(S_BM_CURRENT); NODE3(n); st_a[3] = num; st_a[4] = c; }
void bidib_state_bm_speed(t_bidib_dcc_address d, uint8_t l, uint8_t h) { rec(S_BM_SPEED); st_a[0] = d.addrl; st_a[1] = d.addrh; st_a[2] = l; st_a[3] = h; }
void bidib_state_bm_dyn_state(t_bidib_dcc_address d, uint8_t num, uint8_t v, unsigned int aid) { rec(S_BM_DYN); st_a[0] = d.addrl; st_a[1] = d.addrh; st_a[2] = num; st_a[3] = v; st_a[4] = aid; }
void bidib_state_boost_diagnostic(t_bidib_node_address n, uint8_t len, const uint8_t *const l, unsigned int aid) { rec(S_BOOST_DIAG); NODE3(n); st_a[3] = len; st_a[4] = aid; st_ptr = l; touch(l, len); }
void bidib_state_accessory_state(t_bidib_node_address n, uint8_t num, uint8_t asp, uint8_t tot, uint8_t ex, uint8_t w, unsigned int aid) {
	rec(S_ACC_STATE); NODE3(n); st_a[3] = num; st_a[4] = asp; st_a[5] = tot; st_a[6] = ex; st_a[7] = w; st_a[8] = aid;
}
void bidib_state_boost_state(t_bidib_node_address n, uint8_t s) { rec(S_BOOST_STATE); NODE3(n); st_a[3] = s; }
void bidib_state_vendor(t_bidib_node_address n, uint8_t len, const uint8_t *const v, unsigned int aid) { rec(S_VENDOR); NODE3(n); st_a[3] = len; st_a[4] = aid; st_ptr = v; touch(v, len); }

static int snd_ack, snd_mirror, snd_accget, flush_n;
static unsigned snd_a[6];
void bidib_send_node_changed_ack(t_bidib_node_address n, uint8_t v, unsigned int aid) { (void)aid; snd_ack++; snd_a[0] = n.top; snd_a[1] = n.sub; snd_a[2] = n.subsub; snd_a[3] = v; }
void bidib_send_bm_mirror_occ(t_bidib_node_address n, uint8_t m, unsigned int aid) { (void)n; (void)m; (void)aid; snd_mirror++; }
void bidib_send_bm_mirror_free(t_bidib_node_address n, uint8_t m, unsigned int aid) { (void)n; (void)m; (void)aid; snd_mirror++; }
void bidib_send_bm_mirror_multiple(t_bidib_node_address n, uint8_t m, uint8_t s, const uint8_t *const d, unsigned int aid) { (void)n; (void)m; (void)s; (void)d; (void)aid; snd_mirror++; }
void bidib_send_msg_bm_mirror_position(t_bidib_node_address n, uint8_t a, uint8_t b, uint8_t c, unsigned int aid) { (void)n; (void)a; (void)b; (void)c; (void)aid; snd_mirror++; }
void bidib_buffer_message_with_data(const uint8_t *const a, uint8_t t, uint8_t n, const uint8_t *const d, unsigned int aid) { (void)a; (void)t; (void)n; (void)d; (void)aid; snd_mirror++; }
void bidib_send_accessory_get(t_bidib_node_address n, uint8_t num, unsigned int aid) { (void)aid; snd_accget++; snd_a[0] = n.top; snd_a[1] = n.sub; snd_a[2] = n.subsub; snd_a[3] = num; }
void bidib_flush(void) { flush_n++; }

static t_bidib_board the_board;
static bool board_known;
t_bidib_board *bidib_state_get_board_ref_by_nodeaddr(t_bidib_node_address n) {
	(void)n;
	if (!verif_held(L_BOARDS_RW)) st_locks_ok = false;
	return board_known ? &the_board : NULL;
}
/* error class of booster states, from the BiDiB booster state codes: local stop request, short, overheated,
 * and every code the protocol does not define */
static bool ref_boost_error(uint8_t s) {
	switch (s) {
	case 0x00: case 0x03: case 0x04: case 0x05: case 0x06: case 0x80: case 0x81: case 0x82: case 0x84: return false;
	default: return true;
	}
}
t_bidib_booster_power_state_simple bidib_booster_normal_to_simple(t_bidib_booster_power_state s);

enum { R_CONSUMED, R_MSGQ, R_ERRQ, R_INTERN };

/* number of data bytes in the fixed part of the uplink message layouts the library interprets (BiDiB specification:
 * NODE_NEW/LOST version + local address + 7 uid bytes; CS_DRIVE_MANUAL address(2) format active speed f1..f4; ACCESSORY
 * STATE/NOTIFY anum aspect total execute wait; BM_DYN_STATE mnum address(2) dyn_num value; BM_POSITION address(2) type
 * location(2); BM_SPEED address(2) speed(2); the 3-byte acknowledgements / port states / confidence; mnum+value pairs;
 * single-byte states) */
static int ref_fixed_layout_bytes(uint8_t type) {
	switch (type) {
	case MSG_NODE_LOST: case MSG_NODE_NEW: case MSG_CS_DRIVE_MANUAL: return 9;
	case MSG_ACCESSORY_STATE: case MSG_ACCESSORY_NOTIFY: case MSG_BM_DYN_STATE: case MSG_BM_POSITION: return 5;
	case MSG_BM_SPEED: return 4;
	case MSG_CS_DRIVE_ACK: case MSG_CS_ACCESSORY_ACK: case MSG_CS_ACCESSORY_MANUAL: case MSG_LC_STAT: case MSG_LC_WAIT:
	case MSG_BM_CONFIDENCE: return 3;
	case MSG_BM_MULTIPLE: case MSG_BM_CURRENT: case MSG_BOOST_DIAGNOSTIC: case MSG_VENDOR: return 2;
	case MSG_PKT_CAPACITY: case MSG_STALL: case MSG_CS_STATE: case MSG_BM_OCC: case MSG_BM_FREE: case MSG_BM_ADDRESS:
	case MSG_BOOST_STAT: case MSG_CS_DRIVE_EVENT: case MSG_SYS_ERROR: return 1;
	default: return 0;
	}
}

void harness(void) {
	bool debug = ND_bool("debug_mode");
	bidib_lowlevel_debug_mode = debug;
	board_known = ND_bool("board_known");
	the_board.secack_on = ND_bool("secack");
	GString bid = {(gchar *)"b", 1, 2};
	the_board.id = &bid;
	bidib_set_read_src(NULL);

	size_t total = 1 + DEPTH + 3 + DLEN;
	uint8_t *msg = malloc(total);
	uint8_t copy[1 + 3 + 3 + DLEN + 1];
	uint8_t addr[4] = {0, 0, 0, 0};
	msg[0] = (uint8_t)(total - 1);
	for (int i = 0; i < DEPTH; i++) { addr[i] = ND_u8("addr"); VASSUME(addr[i] != 0); msg[1 + i] = addr[i]; }
	msg[1 + DEPTH] = 0;
	uint8_t seq = ND_u8("seq"); msg[2 + DEPTH] = seq;
	uint8_t type = ND_u8("type"); msg[3 + DEPTH] = type;
	const int di = DEPTH + 4;
	uint8_t d[DLEN + 16];
	for (int i = 0; i < DLEN + 16; i++) d[i] = 0;
	for (int i = 0; i < DLEN; i++) { d[i] = ND_u8("data"); msg[di + i] = d[i]; }
	for (size_t i = 0; i < total; i++) copy[i] = msg[i];
	unsigned aid = ND_u8("action_id");

	bidib_handle_received_message(msg, type, addr, seq, aid);

#ifdef MODE_SHORT
	/* C12-H3: memory safety only (CBMC pointer/bounds checks inside the dispatcher and log helpers); whatever
	 * was queued is drained and freed, --memory-leak-check covers the rest */
	uint8_t *o;
	while ((o = bidib_read_message()) != NULL) free(o);
	while ((o = bidib_read_error_message()) != NULL) free(o);
	while ((o = bidib_read_intern_message()) != NULL) free(o);
	VASSERT(verif_all_free(), "dispatcher returns with all locks released");
	bidib_running = false;
	bidib_uplink_queue_free(); bidib_uplink_error_queue_free(); bidib_uplink_intern_queue_free();
	VWITNESS();
	return;
#endif
	/* ---- reference routing ---- */
	int want;
	int want_stub = S_NONE;
	if (debug) {
		want = type == MSG_STALL ? R_CONSUMED : R_MSGQ;
		if (type == MSG_STALL) want_stub = S_STALL;
	} else {
		switch (type) {
		case MSG_SYS_MAGIC: case MSG_NODETAB_COUNT: case MSG_NODETAB: case MSG_FEATURE_COUNT: case MSG_FEATURE:
			want = R_INTERN; break;
		case MSG_PKT_CAPACITY: want = R_CONSUMED; want_stub = S_PKTCAP; break;
		case MSG_NODE_LOST: want = R_CONSUMED; want_stub = S_NODE_LOST; break;
		case MSG_NODE_NEW: want = R_CONSUMED; want_stub = S_NODE_NEW; break;
		case MSG_STALL: want = R_CONSUMED; want_stub = S_STALL; break;
		case MSG_CS_STATE: want = R_CONSUMED; want_stub = S_CS_STATE; break;
		case MSG_CS_DRIVE_ACK: want = R_CONSUMED; want_stub = S_DRIVE_ACK; break;
		case MSG_CS_ACCESSORY_ACK: want = R_CONSUMED; want_stub = S_ACC_ACK; break;
		case MSG_CS_DRIVE_MANUAL: want = R_CONSUMED; want_stub = S_CS_DRIVE; break;
		case MSG_CS_ACCESSORY_MANUAL: want = R_CONSUMED; want_stub = S_ACC_MANUAL; break;
		case MSG_LC_STAT: want = R_CONSUMED; want_stub = S_LC_STAT; break;
		case MSG_LC_WAIT: want = R_CONSUMED; want_stub = S_LC_WAIT; break;
		case MSG_BM_OCC: case MSG_BM_FREE: want = R_CONSUMED; want_stub = S_BM_OCC; break;
		case MSG_BM_MULTIPLE: want = R_CONSUMED;
			/* a bitmap of d[1] bits that does not fit the message is malformed: dropped, no state change */
			want_stub = (2 + (d[1] + 7) / 8 <= DLEN) ? S_BM_MULTIPLE : S_NONE; break;
		case MSG_BM_CONFIDENCE: want = R_CONSUMED; want_stub = S_BM_CONF; break;
		case MSG_BM_ADDRESS: want = R_CONSUMED; want_stub = S_BM_ADDRESS; break;
		case MSG_BM_CURRENT: want = R_CONSUMED; want_stub = S_BM_CURRENT; break;
		case MSG_BM_SPEED: want = R_CONSUMED; want_stub = S_BM_SPEED; break;
		case MSG_BM_DYN_STATE: want = R_CONSUMED; want_stub = S_BM_DYN; break;
		case MSG_BOOST_DIAGNOSTIC: want = R_CONSUMED; want_stub = S_BOOST_DIAG; break;
		case MSG_ACCESSORY_STATE: case MSG_ACCESSORY_NOTIFY:
			want = d[3] == 0x80 ? R_ERRQ : R_CONSUMED; want_stub = S_ACC_STATE; break;
		case MSG_BOOST_STAT: want = ref_boost_error(d[0]) ? R_ERRQ : R_CONSUMED; want_stub = S_BOOST_STATE; break;
		case MSG_CS_DRIVE_EVENT: want = d[0] == 1 ? R_ERRQ : R_CONSUMED; break;
		case MSG_VENDOR: want = R_CONSUMED; want_stub = S_VENDOR; break;   /* reverser state is tracked from it (C07) */
		default:
			want = readme_error_queue(type) ? R_ERRQ : R_MSGQ; break;
		}
		/* the README tables and the classification above must agree */
		if (readme_error_queue(type)) VASSERT(want == R_ERRQ || type == MSG_ACCESSORY_STATE || type == MSG_ACCESSORY_NOTIFY ||
		                                      type == MSG_CS_DRIVE_EVENT || type == MSG_BOOST_STAT, "README error-queue table");
		if (readme_message_queue(type)) VASSERT(want == R_MSGQ, "README message-queue table: listed types reach the user message queue");
	}
	/* a message shorter than the fixed part of its BiDiB layout is malformed (C12): discarded - no state change, no queue */
	if ((!debug || type == MSG_STALL) && DLEN < ref_fixed_layout_bytes(type)) { want = R_CONSUMED; want_stub = S_NONE; }
	guint lm = g_queue_get_length(uplink_queue), le = g_queue_get_length(uplink_error_queue), li = g_queue_get_length(uplink_intern_queue);
	VASSERT(lm == (want == R_MSGQ ? 1u : 0u), "message queue gets the message iff it is its destination");
	VASSERT(le == (want == R_ERRQ ? 1u : 0u), "error queue gets the message iff it is its destination");
	VASSERT(li == (want == R_INTERN ? 1u : 0u), "internal queue gets the message iff it is its destination");
	VASSERT(st_calls == (want_stub == S_NONE ? 0 : 1), "state tracking is invoked exactly once for state-bearing types, never otherwise");
	VASSERT(want_stub == S_NONE || st_id == want_stub, "the state handler of that message type is invoked");
	VASSERT(st_locks_ok, "handlers that document a lock precondition are called with it held");
	VASSERT(verif_all_free(), "dispatcher returns with all locks released");

	/* ---- field extraction (BiDiB message layouts; d[] = data bytes) ---- */
	if (want_stub != S_NONE && st_calls == 1 && st_id == want_stub) {
		bool node_ok = st_a[0] == addr[0] && st_a[1] == addr[1] && st_a[2] == addr[2];
		switch (want_stub) {
		case S_PKTCAP: VASSERT(st_a[0] == d[0], "PKT_CAPACITY: capacity byte"); break;
		case S_NODE_LOST: case S_NODE_NEW:
			VASSERT(st_a[3] == d[2] && st_a[4] == d[3] && st_a[5] == d[4] && st_a[6] == d[5] && st_a[7] == d[6] &&
			        st_a[8] == d[7] && st_a[9] == d[8], "NODE_NEW/LOST: unique id bytes");
			if (want_stub == S_NODE_NEW) VASSERT(node_ok && st_a[10] == d[1], "NODE_NEW: announcing node + local address");
			VASSERT(snd_ack == 1 && snd_a[0] == addr[0] && snd_a[1] == addr[1] && snd_a[2] == addr[2] && snd_a[3] == d[0],
			        "NODE_NEW/LOST: acknowledged once to the announcing node with the announced table version");
			VASSERT(flush_n >= 1, "acknowledgement flushed");
			break;
		case S_STALL: VASSERT(node_ok && st_a[3] == d[DLEN - 1], "STALL: last data byte is the status"); break;
		case S_CS_STATE: VASSERT(node_ok && st_a[3] == d[0] && st_a[4] == aid, "CS_STATE fields"); break;
		case S_DRIVE_ACK: VASSERT(st_a[0] == d[0] && st_a[1] == d[1] && st_a[2] == d[2] && st_a[3] == aid, "CS_DRIVE_ACK fields"); break;
		case S_ACC_ACK: VASSERT(node_ok && st_a[3] == d[0] && st_a[4] == d[1] && st_a[5] == d[2], "CS_ACCESSORY_ACK fields"); break;
		case S_CS_DRIVE: VASSERT(st_a[0] == d[0] && st_a[1] == d[1] && st_a[2] == d[2] && st_a[3] == d[3] && st_a[4] == d[4] &&
			        st_a[5] == d[5] && st_a[6] == d[6] && st_a[7] == d[7] && st_a[8] == d[8], "CS_DRIVE_MANUAL fields"); break;
		case S_ACC_MANUAL: VASSERT(node_ok && st_a[3] == d[0] && st_a[4] == d[1] && st_a[5] == d[2], "CS_ACCESSORY_MANUAL fields"); break;
		case S_LC_STAT: VASSERT(node_ok && st_a[3] == d[0] && st_a[4] == d[1] && st_a[5] == d[2] && st_a[6] == aid, "LC_STAT fields"); break;
		case S_LC_WAIT: VASSERT(node_ok && st_a[3] == d[0] && st_a[4] == d[1] && st_a[5] == d[2], "LC_WAIT fields"); break;
		case S_BM_OCC: VASSERT(node_ok && st_a[3] == d[0] && st_a[4] == (type == MSG_BM_OCC ? 1u : 0u), "BM_OCC/FREE fields"); break;
		case S_BM_MULTIPLE: VASSERT(node_ok && st_a[3] == d[0] && st_a[4] == d[1] && st_ptr == &msg[di + 2], "BM_MULTIPLE fields"); break;
		case S_BM_CONF: VASSERT(node_ok && st_a[3] == d[0] && st_a[4] == d[1] && st_a[5] == d[2] && st_a[6] == aid, "BM_CONFIDENCE fields"); break;
		case S_BM_ADDRESS: VASSERT(node_ok && st_a[3] == d[0] && st_a[4] == (DLEN - 1) / 2 && st_ptr == &msg[di + 1], "BM_ADDRESS: detector, number of address pairs, list"); break;
		case S_BM_CURRENT: VASSERT(node_ok && st_a[3] == d[0] && st_a[4] == d[1], "BM_CURRENT fields"); break;
		case S_BM_SPEED: VASSERT(st_a[0] == d[0] && st_a[1] == d[1] && st_a[2] == d[2] && st_a[3] == d[3], "BM_SPEED fields"); break;
		case S_BM_DYN: VASSERT(st_a[0] == d[1] && st_a[1] == d[2] && st_a[2] == d[3] && st_a[3] == d[4] && st_a[4] == aid, "BM_DYN_STATE fields"); break;
		case S_BOOST_DIAG: VASSERT(node_ok && st_a[3] == DLEN && st_a[4] == aid && st_ptr == &msg[di], "BOOST_DIAGNOSTIC: list and its length"); break;
		case S_ACC_STATE: VASSERT(node_ok && st_a[3] == d[0] && st_a[4] == d[1] && st_a[5] == d[2] && st_a[6] == d[3] && st_a[7] == d[4] && st_a[8] == aid, "ACCESSORY_STATE/NOTIFY fields");
			VASSERT(snd_accget == (type == MSG_ACCESSORY_NOTIFY ? 1 : 0), "a notification (only) is acknowledged by a state query");
			if (type == MSG_ACCESSORY_NOTIFY) VASSERT(snd_a[0] == addr[0] && snd_a[1] == addr[1] && snd_a[2] == addr[2] && snd_a[3] == d[0], "query names the accessory");
			break;
		case S_BOOST_STATE: VASSERT(node_ok && st_a[3] == d[0], "BOOST_STAT fields"); break;
		case S_VENDOR: VASSERT(node_ok && st_a[3] == DLEN && st_a[4] == aid && st_ptr == &msg[di], "VENDOR: data and its length"); break;
		default: break;
		}
	}
	/* ---- ownership: the queued entry is the received buffer itself, unchanged; caller of read owns it ---- */
	uint8_t *out = NULL;
	if (want == R_MSGQ) out = bidib_read_message();
	else if (want == R_ERRQ) out = bidib_read_error_message();
	else if (want == R_INTERN) out = bidib_read_intern_message();
	if (want != R_CONSUMED && lm + le + li == 1) {
		VASSERT(out == msg, "the reader gets the received buffer");
		bool same = true;
		for (size_t i = 0; i < total; i++) if (out == msg && out[i] != copy[i]) same = false;
		VASSERT(same, "holding exactly the received bytes");
		if (out == msg) free(out);
	}
	VASSERT(bidib_read_message() == NULL && bidib_read_error_message() == NULL && bidib_read_intern_message() == NULL,
	        "each message is returned once; empty queues return NULL");
	bidib_running = false;
	bidib_uplink_queue_free(); bidib_uplink_error_queue_free(); bidib_uplink_intern_queue_free();
	VWITNESS();
}
