/* C14: configurations are accepted iff well-formed and unambiguous; enumeration getters reflect them exactly.
 *
 * MODE 0 (uniqueness) bidib_state_add_board / _train / _*_state on the builder world with an ARBITRARY new id (<= 2
 *        characters) / unique id / dcc address: rejected iff the id (per kind), unique id or dcc address (shared between
 *        trains and dcc accessories) is already taken; accepted entries are appended, rejected ones change nothing.
 * MODE 1 (getters)   on the builder world every enumeration getter returns exactly the declared items (boards, points,
 *        signals, peripherals, segments, reversers, boosters / track outputs from the class bits, trains, train
 *        functions, aspects), the connected_* variants exactly those of connected boards.
 * MODE 2 (records)   real record parsers on a CONCRETE event skeleton with SYMBOLIC scalar values (libyaml mode B):
 *        REC 0 aspect {id X value V} after one earlier aspect: accepted iff V is a well-formed byte, X and V differ from
 *        the earlier aspect's;  REC 1 calibration list of NCAL values: accepted iff exactly 9 well-formed values <= 126;
 *        REC 2 train function {id X bit B [initial I]} after one earlier function: accepted iff B <= 31, B and X unused,
 *        I in {0,1}
 * unit (real code): bidib_state.c, bidib_state_getter.c, bidib_highlevel_getter.c, bidib_config_parser*.c
 */
#include "verif.h"
#ifndef MODE
#define MODE 0
#endif
#if MODE == 2
#include <yaml.h>
#include <glib.h>
#include "src/state/bidib_state_intern.h"
#include "src/parser/bidib_config_parser_intern.h"
#if REC == 0
#include "src/parser/bidib_config_parser_track.c"
#else
#include "src/parser/bidib_config_parser_train.c"
#endif
/* numeric scalar vocabulary: well-formed and malformed forms, boundary values */
static const char *const NUM[] = {"0", "1", "2", "5", "31", "32", "126", "127", "255", "256", "0x00", "0x01", "0x1f", "0x20", "0x7e", "0x7f", "0xff", "0x100", "", "x", "-1", "1x"};
#define NNUM ((int)(sizeof(NUM) / sizeof(NUM[0])))
static const int NUMVAL[] = {0, 1, 2, 5, 31, 32, 126, 127, 255, -1, 0, 1, 31, 32, 126, 127, 255, -1, -1, -1, -1, -1};   /* -1 = not a byte */
int verif_yaml_dict_size(void) { return 1; }
void verif_yaml_word(int c, char *dst) { (void)c; dst[0] = 0; }
static int num_choice[12];
static char sym_id[3];
const char *verif_yaml_scalar(int pos);
volatile bool bidib_running;
pthread_rwlock_t bidib_trains_rwlock, bidib_boards_rwlock;
pthread_mutex_t trackstate_accessories_mutex, trackstate_peripherals_mutex, trackstate_segments_mutex,
	trackstate_reversers_mutex, trackstate_trains_mutex, trackstate_boosters_mutex,
	trackstate_track_outputs_mutex;
static GArray *arr(guint esize) { return g_array_sized_new(FALSE, FALSE, esize, 4); }
#if REC == 0
int verif_yaml_types[VERIF_YAML_LEN] = {YAML_SCALAR_EVENT, YAML_SCALAR_EVENT, YAML_SCALAR_EVENT, YAML_SCALAR_EVENT, YAML_MAPPING_END_EVENT};
const int verif_yaml_script_n = 5;
const char *verif_yaml_scalar(int pos) { return pos == 0 ? "id" : pos == 1 ? sym_id : pos == 2 ? "value" : NUM[num_choice[0]]; }
#elif REC == 1
int verif_yaml_types[VERIF_YAML_LEN];      /* NCAL scalars, SEQUENCE_END (the caller has consumed the sequence start) */
const int verif_yaml_script_n = VERIF_YAML_LEN;
const char *verif_yaml_scalar(int pos) { return NUM[num_choice[pos]]; }
#else
int verif_yaml_types[VERIF_YAML_LEN] = {YAML_SCALAR_EVENT, YAML_SCALAR_EVENT, YAML_SCALAR_EVENT, YAML_SCALAR_EVENT, YAML_SCALAR_EVENT, YAML_SCALAR_EVENT, YAML_MAPPING_END_EVENT};
const int verif_yaml_script_n = 7;
const char *verif_yaml_scalar(int pos) { return pos == 0 ? "id" : pos == 1 ? sym_id : pos == 2 ? "bit" : pos == 3 ? NUM[num_choice[0]] : pos == 4 ? "initial" : NUM[num_choice[1]]; }
#endif
void harness(void) {
	yaml_parser_t parser;
	for (int i = 0; i < 12; i++) {
		num_choice[i] = ND_u8("num_choice"); VASSUME(num_choice[i] < NNUM);
#if REC == 1
		/* calibration lists: 9-10 symbolic values, vocabulary cut to "5" "126" "127" "0x7e" "" "x" */
		VASSUME(num_choice[i] == 3 || num_choice[i] == 6 || num_choice[i] == 7 || num_choice[i] == 14 || num_choice[i] == 18 || num_choice[i] == 19);
#endif
	}
	sym_id[0] = (char)ND_u8("id0"); sym_id[1] = (char)ND_u8("id1"); sym_id[2] = 0; if (sym_id[0] == 0) sym_id[1] = 0;
	bidib_boards = arr(sizeof(t_bidib_board)); bidib_trains = arr(sizeof(t_bidib_train));
	bidib_initial_values.trains = arr(sizeof(t_bidib_state_train_initial_value));
#if REC == 0
	GArray *al = arr(sizeof(t_bidib_aspect));
	uint8_t oldv = ND_u8("old_value");
	t_bidib_aspect a0 = {g_string_new("n"), oldv}; g_array_append_val(al, a0);
	bool err = bidib_config_parse_aspect(&parser, al);
	int v = NUMVAL[num_choice[0]];
	bool same_id = sym_id[0] == 'n' && sym_id[1] == 0;
	bool want_ok = v >= 0 && v != oldv && !same_id;
	VASSERT(err == !want_ok, "aspect accepted iff its value is a well-formed byte and id and value differ from the aspects already declared");
	if (!err) { t_bidib_aspect got = g_array_index(al, t_bidib_aspect, 1); VASSERT(al->len == 2 && got.value == v && got.id->str[0] == sym_id[0] && (sym_id[0] == 0 || got.id->str[1] == sym_id[1]), "accepted aspect is stored with the declared id and value"); }
#elif REC == 1
	t_bidib_train t = {g_string_new("t1"), {1, 0, 0}, 126, NULL, arr(sizeof(t_bidib_train_peripheral_mapping))};
	for (int i = 0; i < NCAL; i++) verif_yaml_types[i] = YAML_SCALAR_EVENT;
	verif_yaml_types[NCAL] = YAML_SEQUENCE_END_EVENT;
	bool err = bidib_config_parse_single_train_calibration(&parser, &t);
	bool all_ok = true;
	for (int i = 0; i < 9; i++) { int v = i < NCAL ? NUMVAL[num_choice[i]] : -1; if (v < 0 || v > 126) all_ok = false; }
	if (NCAL >= 9) {
		VASSERT(err == !all_ok, "calibration accepted iff the first 9 values are well-formed and <= 126");
		if (!err) for (int i = 0; i < 9; i++) VASSERT(g_array_index(t.calibration, int, i) == NUMVAL[num_choice[i]], "calibration values stored in order");
	} else {
		VASSERT(err, "fewer than 9 calibration values are rejected");
	}
#else
	t_bidib_train t = {g_string_new("t1"), {1, 0, 0}, 126, NULL, arr(sizeof(t_bidib_train_peripheral_mapping))};
	uint8_t oldbit = ND_u8("old_bit"); VASSUME(oldbit <= 31);
	t_bidib_train_peripheral_mapping m0 = {g_string_new("hd"), oldbit}; g_array_append_val(t.peripherals, m0);
	t_bidib_train_state_intern ts; ts.id = g_string_new("t1"); ts.peripherals = arr(sizeof(t_bidib_train_peripheral_state));
	t_bidib_train_peripheral_state p0 = {strdup("hd"), 0}; g_array_append_val(ts.peripherals, p0);
	bool err = bidib_config_parse_single_train_peripheral(&parser, &t, &ts);
	int b = NUMVAL[num_choice[0]], ini = NUMVAL[num_choice[1]];
	bool same_id = sym_id[0] == 'h' && sym_id[1] == 'd';
	bool want_ok = b >= 0 && b <= 31 && b != oldbit && !same_id && (ini == 0 || ini == 1);
	VASSERT(err == !want_ok, "train function accepted iff bit <= 31, bit and id unused, initial value 0/1");
#endif
	VASSERT(verif_all_free(), "locks released");
	VWITNESS();
}
#else
/* ---------------- MODE 0 / 1 on the builder world ---------------- */
#define SB_SEG_ADDRS 0
#include "state_builder.h"
#include "include/bidib.h"
#include "src/state/bidib_state_intern.h"
volatile bool bidib_running;
pthread_rwlock_t bidib_trains_rwlock, bidib_boards_rwlock;
pthread_mutex_t trackstate_accessories_mutex, trackstate_peripherals_mutex, trackstate_segments_mutex,
	trackstate_reversers_mutex, trackstate_trains_mutex, trackstate_boosters_mutex,
	trackstate_track_outputs_mutex;
static bool is(const char *a, const char *b) { return a[0] == b[0] && (a[0] == 0 || (a[1] == b[1] && (a[1] == 0 || a[2] == b[2]))); }
static bool list_is(t_bidib_id_list_query q, const char *x, const char *y) {   /* exactly {x, y} (NULL = absent), any order */
	size_t want = (x != NULL) + (y != NULL);
	if (q.length != want) return false;
	bool sx = x == NULL, sy = y == NULL;
	for (size_t i = 0; i < 2; i++) if (i < q.length) { if (x && is(q.ids[i], x)) sx = true; else if (y && is(q.ids[i], y)) sy = true; else return false; }
	return sx && sy;
}
#define CHECK_LIST(call, x, y, text) do { t_bidib_id_list_query q_ = call; VASSERT(list_is(q_, x, y), text); bidib_free_id_list_query(q_); } while (0)
void harness(void) {
	sb_build();
	t_bidib_board *b1 = sbw.b1;
#if MODE == 0
	char a[3]; a[0] = (char)ND_u8("id0"); a[1] = (char)ND_u8("id1"); a[2] = 0; if (a[0] == 0) a[1] = 0;
	t_bidib_dcc_address da = {ND_u8("al"), ND_u8("ah"), 0};
	t_bidib_dcc_accessory_mapping *pd = &g_array_index(b1->points_dcc, t_bidib_dcc_accessory_mapping, 0);
	t_bidib_dcc_accessory_mapping *sd = &g_array_index(b1->signals_dcc, t_bidib_dcc_accessory_mapping, 0);
	bool addr_used = (da.addrl == pd->dcc_addr.addrl && da.addrh == pd->dcc_addr.addrh) || (da.addrl == sd->dcc_addr.addrl && da.addrh == sd->dcc_addr.addrh) ||
	                 (da.addrl == sbw.t1->dcc_addr.addrl && da.addrh == sbw.t1->dcc_addr.addrh);
#if WHICH == 0
	t_bidib_board nb = sb_empty_board("zz"); g_string_free(nb.id, TRUE); nb.id = g_string_new(a);
	bool same_uid = nb.unique_id.class_id == b1->unique_id.class_id && nb.unique_id.class_id_ext == b1->unique_id.class_id_ext && nb.unique_id.vendor_id == b1->unique_id.vendor_id &&
		nb.unique_id.product_id1 == b1->unique_id.product_id1 && nb.unique_id.product_id2 == b1->unique_id.product_id2 && nb.unique_id.product_id3 == b1->unique_id.product_id3 &&
		nb.unique_id.product_id4 == b1->unique_id.product_id4;
	bool rej = bidib_state_add_board(nb);
	VASSERT(rej == (is(a, "b1") || same_uid), "board rejected iff its id or unique id is already configured");
	VASSERT(bidib_boards->len == (rej ? 1u : 2u), "accepted board appended, rejected board not");
#elif WHICH == 1
	t_bidib_train nt = sb_train("zz", 0); g_string_free(nt.id, TRUE); nt.id = g_string_new(a); nt.dcc_addr = da;
	bool rej = bidib_state_add_train(nt);
	VASSERT(rej == (is(a, "t1") || addr_used), "train rejected iff its id is taken or its dcc address is used by a train or a dcc accessory");
	VASSERT(bidib_trains->len == (rej ? 1u : 2u), "accepted train appended, rejected train not");
#elif WHICH == 2
	t_bidib_dcc_accessory_state s = sb_dcc_acc_state("zz", "n", "r"); free(s.id); s.id = sb_str(a);
	bool sig = ND_bool("signal");
	bool rej = sig ? bidib_state_add_dcc_signal_state(s, da) : bidib_state_add_dcc_point_state(s, da);
	bool id_used = sig ? (is(a, "s1") || is(a, "sd")) : (is(a, "p1") || is(a, "pd"));
	VASSERT(rej == (id_used || addr_used), "dcc accessory rejected iff its id is taken (per kind) or its dcc address is used by a train or another accessory");
#elif WHICH == 3
	t_bidib_board_accessory_state s = sb_board_acc_state("zz", "n", "r"); free(s.id); s.id = sb_str(a);
	bool sig = ND_bool("signal");
	bool rej = sig ? bidib_state_add_board_signal_state(s) : bidib_state_add_board_point_state(s);
	VASSERT(rej == (sig ? (is(a, "s1") || is(a, "sd")) : (is(a, "p1") || is(a, "pd"))), "board accessory rejected iff a point (resp. signal) with that id exists");
#else
	t_bidib_peripheral_state ps; ps.id = sb_str(a); ps.data.state_id = NULL; ps.data.state_value = 0; ps.data.time_unit = 0; ps.data.wait = 0;
	VASSERT(bidib_state_add_peripheral_state(ps) == is(a, "l1"), "peripheral rejected iff the id exists");
	t_bidib_reverser_state rs; rs.id = sb_str(a); rs.data.state_id = NULL; rs.data.state_value = 0;
	VASSERT(bidib_state_add_reverser_state(rs) == is(a, "r1"), "reverser rejected iff the id exists");
	t_bidib_segment_state_intern ss = sb_segment_state("zz"); g_string_free(ss.id, TRUE); ss.id = g_string_new(a);
	VASSERT(bidib_state_add_segment_state(ss) == (is(a, "g1") || is(a, "g2")), "segment rejected iff the id exists");
#endif
	VASSERT(verif_all_free(), "locks released");
#else
	/* the board parser creates the booster / track-output entries from the class bits of the unique id */
	VASSUME(sbw.has_booster == ((b1->unique_id.class_id & 0x02) != 0) && sbw.has_track_output == ((b1->unique_id.class_id & 0x10) != 0));
	bool conn = b1->connected;
	bool boost = (b1->unique_id.class_id & 0x02) != 0, dcc = (b1->unique_id.class_id & 0x10) != 0;
	CHECK_LIST(bidib_get_boards(), "b1", NULL, "bidib_get_boards = declared boards");
	CHECK_LIST(bidib_get_boards_connected(), conn ? "b1" : NULL, NULL, "bidib_get_boards_connected = connected boards");
	CHECK_LIST(bidib_get_board_points("b1"), "p1", "pd", "board points = declared points (board and dcc)");
	CHECK_LIST(bidib_get_board_signals("b1"), "s1", "sd", "board signals");
	CHECK_LIST(bidib_get_board_peripherals("b1"), "l1", NULL, "board peripherals");
	CHECK_LIST(bidib_get_board_segments("b1"), "g1", "g2", "board segments");
	CHECK_LIST(bidib_get_board_reversers("b1"), "r1", NULL, "board reversers");
	CHECK_LIST(bidib_get_connected_points(), conn ? "p1" : NULL, conn ? "pd" : NULL, "connected points");
	CHECK_LIST(bidib_get_connected_signals(), conn ? "s1" : NULL, conn ? "sd" : NULL, "connected signals");
	CHECK_LIST(bidib_get_connected_peripherals(), conn ? "l1" : NULL, NULL, "connected peripherals");
	CHECK_LIST(bidib_get_connected_segments(), conn ? "g1" : NULL, conn ? "g2" : NULL, "connected segments");
	CHECK_LIST(bidib_get_connected_reversers(), conn ? "r1" : NULL, NULL, "connected reversers");
	CHECK_LIST(bidib_get_boosters(), boost ? "b1" : NULL, NULL, "boosters = boards whose unique id has the booster class bit");
	CHECK_LIST(bidib_get_connected_boosters(), (boost && conn) ? "b1" : NULL, NULL, "connected boosters");
	CHECK_LIST(bidib_get_track_outputs(), dcc ? "b1" : NULL, NULL, "track outputs = boards with the DCC class bit");
	CHECK_LIST(bidib_get_connected_track_outputs(), (dcc && conn) ? "b1" : NULL, NULL, "connected track outputs");
	CHECK_LIST(bidib_get_trains(), "t1", NULL, "trains");
	CHECK_LIST(bidib_get_train_peripherals("t1"), "hd", "cb", "train functions");
	CHECK_LIST(bidib_get_point_aspects("p1"), "n", "r", "aspects of a board point");
	CHECK_LIST(bidib_get_point_aspects("pd"), "n", "r", "aspects of a dcc point");
	CHECK_LIST(bidib_get_signal_aspects("s1"), "go", "st", "aspects of a signal");
	CHECK_LIST(bidib_get_peripheral_aspects("l1"), "on", "of", "aspects of a peripheral");
	VASSERT(verif_all_free(), "locks released");
#endif
	VWITNESS();
}
#endif
