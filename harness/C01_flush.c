/* C01-H1: framing of one packet by the real bidib_flush_impl.
 *
 * unit (real code): src/transmission/bidib_transmission_send.c (included: statics set directly),
 *                   src/transmission/bidib_transmission_crc.c
 * pre-state:        send buffer holds N (shape) arbitrary bytes
 * oracle:           wire monitor with an arbitrary stream index K (DESIGN 3.1) against the reference
 *                   encoder of ref_bidib.h; every write callback call has 0 < len <= staging size
 * CRCTAB:           instead: bidib_crc_array[x] == bitwise reference for an arbitrary x
 */
#include "verif.h"
#include "ref_bidib.h"
#include "src/transmission/bidib_transmission_send.c"

#ifndef N
#define N 4
#endif

/* externals of the unit that this harness never reaches */
bool bidib_node_try_send(const uint8_t *const a, uint8_t t, const uint8_t *const m, unsigned int id) {
	(void)a; (void)t; (void)m; (void)id; VASSERT(0, "unreachable: try_send"); return false;
}
uint8_t bidib_node_state_get_and_incr_send_seqnum(const uint8_t *const a) { (void)a; return 0; }
void bidib_extract_address(const uint8_t *const m, uint8_t *d) { (void)m; (void)d; }
void bidib_build_message_hex_string(const uint8_t *const m, char *d) { (void)m; (void)d; }
volatile bool bidib_running;
const char *const bidib_message_string_mapping[0x100];

static size_t mon_k, mon_off;
static int mon_at_k = -1;
static int mon_calls;
static bool mon_len_ok = true, mon_locked = true;
static void mon_write(uint8_t *b, int32_t len) {
	mon_calls++;
	if (len <= 0 || len > PACKET_BUFFER_AUX_SIZE) { mon_len_ok = false; return; }
	if (!verif_held_w(L_SEND_BUFFER)) mon_locked = false;
	if (mon_k >= mon_off && mon_k < mon_off + (size_t)len) mon_at_k = b[mon_k - mon_off];
	mon_off += (size_t)len;
}

void harness(void) {
#ifdef CRCTAB
	uint8_t x = ND_u8("x");
	VASSERT(bidib_crc_array[x] == ref_crc8_byte(0, x), "CRC table entry equals the bitwise CRC8 (poly 0x8C reflected)");
	VWITNESS();
#else
	uint8_t p[N];
	for (int i = 0; i < N; i++) { p[i] = ND_u8("payload"); buffer[i] = p[i]; }
	buffer_index = N;
	write_bytes = mon_write;
	mon_k = ND_u16("K");

	pthread_mutex_lock(&bidib_send_buffer_mutex);
	bidib_flush_impl();
	pthread_mutex_unlock(&bidib_send_buffer_mutex);

	ref_cursor c = {0, mon_k, -1};
	uint8_t crc = 0;
	ref_emit(&c, 0xFE);
	for (int i = 0; i < N; i++) { crc = ref_crc8_byte(crc, p[i]); ref_emit_escaped(&c, p[i]); }
	ref_emit_escaped(&c, crc);
	ref_emit(&c, 0xFE);

	VASSERT(mon_len_ok, "every write callback call hands over 1..staging-size bytes");
	VASSERT(mon_locked, "write callback runs with the send-buffer mutex held");
	VASSERT(mon_off == c.pos, "emitted stream has exactly the length of the reference packet");
	VASSERT(mon_at_k == c.at_k, "byte at an arbitrary stream position equals the reference packet (delimiters, escapes, CRC)");
	VASSERT(buffer_index == 0, "send buffer empty after the flush");
	VASSERT(mon_calls >= 1, "something was written");
	VWITNESS();
#endif
}
