/* C02-S1 / C12-H1 / C12-H4: the receiver's framing layer against a reference decoder.
 *
 * unit (real code): src/transmission/bidib_transmission_receive.c (included): bidib_auto_receive,
 *                   bidib_receive_first_pkt_magic, bidib_receive_packet; bidib_transmission_crc.c
 * stubs:            bidib_split_packet -> verif_split_stub (goto-instrument --replace-calls; static callee):
 *                   records (call count, length, byte at an arbitrary position K of an arbitrary call J);
 *                   its real body is stage S2.  read callback = harness stream.
 * input:            an ARBITRARY stream of N bytes (no assumption at all), optionally "no byte available"
 *                   answers (<= POLLS) at solver-chosen positions; after the last byte the library is stopped
 *                   (bidib_running = false), which is how the receiver loop ends in the real system.
 * oracle:           independent reference decoder (FE delimits, FD escapes next byte ^0x20, bitwise CRC8 over
 *                   payload+CRC == 0, empty packets ignored, bytes before the first delimiter ignored) run over
 *                   the same stream: same number of delivered packets, same lengths, same bytes.
 *                   => good packets delivered once, in order, unescaped; bad CRC / truncated / noise dropped
 *                   entirely; nothing leaks from one packet into the next; the loop terminates (unwinding
 *                   assertions) and never leaves its 256-byte buffer (bounds checks).
 */
#include "verif.h"
#include "ref_bidib.h"
#include "src/transmission/bidib_transmission_receive.c"

#ifndef N
#define N 8
#endif
#ifndef POLLS
#define POLLS 1
#endif

volatile bool bidib_running, bidib_discard_rx, bidib_lowlevel_debug_mode;

static uint8_t stream[N];
static int rd_pos, rd_polls;
static uint8_t reader(int *ok) {
	if (rd_pos >= N) { bidib_running = false; *ok = 1; return 0; }
	if (rd_polls < POLLS && ND_bool("no_byte")) { rd_polls++; *ok = 0; return 0; }
	*ok = 1;
	return stream[rd_pos++];
}

static int sp_calls, sp_j;
static size_t sp_k, sp_len_j;
static int sp_at = -1;
void verif_split_stub(const uint8_t *const buf, size_t size) {
	if (size == 0) return;    /* an empty payload carries no message: not a delivery */
	if (sp_calls == sp_j) {
		sp_len_j = size;
		if (sp_k < size) sp_at = buf[sp_k];
	}
	sp_calls++;
}

void harness(void) {
	for (int i = 0; i < N; i++) stream[i] = ND_u8("byte");
	sp_j = ND_u8("J"); sp_k = ND_u8("K");
	VASSUME(sp_j <= N && sp_k <= N);
	read_byte = reader;
	bidib_running = true;
	bidib_discard_rx = false;

#ifdef WHOLE_LOOP
	bidib_auto_receive(NULL);
#else
	/* bidib_auto_receive's loop structure, flattened (its own nesting is checked by the WHOLE_LOOP shape) */
	bidib_receive_first_pkt_magic();
	for (int c = 0; c < N / 2 + 1; c++) { if (bidib_running && !bidib_discard_rx) bidib_receive_packet(); }
#endif

	/* ---- reference decoder ---- */
	int calls = 0; size_t len_j = 0; int at = -1;
	bool synced = false, esc = false;
	size_t plen = 0; uint8_t crc = 0; int cand = -1; uint8_t lastb = 0;
	for (int i = 0; i < N; i++) {
		uint8_t b = stream[i];
		if (!synced) { if (b == 0xFE) synced = true; continue; }
		if (b == 0xFE) {
			if (plen > 0) {
				if (crc == 0 && plen > 1 && plen <= READ_BUFFER_SIZE) {   /* payload = plen-1 bytes, non-empty, not oversized */
					if (calls == sp_j) { len_j = plen - 1; at = (sp_k < plen - 1) ? cand : -1; }
					calls++;
				}
				plen = 0; crc = 0; cand = -1;
			}
			esc = false;
		} else if (b == 0xFD) {
			esc = true;
		} else {
			uint8_t v = esc ? (uint8_t)(b ^ 0x20) : b;
			esc = false;
			if (plen == sp_k) cand = v;
			crc = ref_crc8_byte(crc, v);
			plen++; lastb = v;
		}
	}
	(void)lastb;
	VASSERT(sp_calls == calls, "exactly the CRC-valid packets are delivered, each once (bad CRC / truncated / noise dropped)");
	if (sp_j < calls) {
		VASSERT(sp_len_j == len_j, "delivered length = unescaped payload length without the CRC byte");
		VASSERT(sp_at == at, "delivered bytes = unescaped payload bytes (arbitrary packet, arbitrary position)");
	}
	VASSERT(!bidib_running, "receiver loop ended because the library was stopped");
#ifdef WITNESS
	VASSUME(calls >= WCALLS);
#endif
	VWITNESS();
}
