/* C07: every feedback message transforms the tracked state exactly as specified; everything it does not name
 * is unchanged (frame).  Because the pre-state is ARBITRARY (state_builder.h), per-message equality with the
 * reference transformer gives "tracked state == fold of all feedback over the initial state" for histories of
 * any length; bidib_state_reset vs the documented initial values is KIND 99.
 *
 * unit (real code): src/state/bidib_state_setter.c (one setter per KIND), bidib_state_getter.c, bidib_state.c
 *                   (conversions, bidib_state_update_train_available), highlevel getter for the train position
 * reference:        ref_apply_*() below, written from the BiDiB message descriptions (bidib_messages.h) and the
 *                   public header docs: current code table, DCC speed byte, function groups, time bytes, ...
 * KIND: 0 CS_STATE 1 CS_DRIVE_ACK 2 CS_ACCESSORY_ACK 3 CS_DRIVE(_MANUAL / own command) 4 CS_ACCESSORY_MANUAL
 *       5 LC_STAT 6 LC_WAIT 8 BM_CONFIDENCE 9 BM_CURRENT 10 BM_SPEED 11 BM_DYN_STATE 12 BOOST_STAT
 *       13 BOOST_DIAGNOSTIC 14 ACCESSORY_STATE 15 VENDOR 16 CS_ACCESSORY (own command)
 */
#define SB_SEG_ADDRS 1
#include "verif.h"
#include "state_builder.h"
#include "include/bidib.h"
#include "src/state/bidib_state_setter_intern.h"
#include "src/state/bidib_state_getter_intern.h"
#include "src/highlevel/bidib_highlevel_intern.h"

#ifndef KIND
#define KIND 0
#endif
#ifndef NPAIRS
#define NPAIRS 2
#endif

volatile bool bidib_running;
pthread_rwlock_t bidib_trains_rwlock, bidib_boards_rwlock;
pthread_mutex_t trackstate_accessories_mutex, trackstate_peripherals_mutex, trackstate_segments_mutex,
	trackstate_reversers_mutex, trackstate_trains_mutex, trackstate_boosters_mutex,
	trackstate_track_outputs_mutex;
const char *const bidib_cs_state_string_mapping[9];

/* ---- whole-state snapshot (every scalar the getters can report) ---- */
typedef struct { int sid; unsigned val, exec, wait; } s_bacc;                 /* board accessory */
typedef struct { int sid; unsigned val, coil, oct, ack, tu, time; } s_dacc;    /* dcc accessory   */
typedef struct { unsigned occ, cv, fr, ns, known, over, cur, naddr, al, ah, at; } s_seg;
typedef struct {
	s_bacc p1, s1; s_dacc pd, sd;
	int l1_sid; unsigned l1_val, l1_tu, l1_wait;
	s_seg g[2];
	int r1_sid; unsigned r1_val;
	unsigned t_on, t_or, t_fwd, t_ack, t_kmh, t_f[2]; int t_speed; unsigned dk[5], dv[5];
	unsigned b_pow, b_simple, b_known, b_over, b_cur, b_vk, b_v, b_tk; int b_t;
	unsigned to_cs;
	unsigned conn;
} snap_t;
static bool streq(const char *a, const char *b) { size_t i = 0; while (a[i] && a[i] == b[i]) i++; return a[i] == b[i]; }
static int sid2(const char *s, const char *a, const char *b) { return s == NULL ? 0 : streq(s, a) ? 1 : streq(s, b) ? 2 : 3; }
static s_bacc snap_bacc(GArray *arr, const char *a, const char *b) {
	t_bidib_board_accessory_state *x = &g_array_index(arr, t_bidib_board_accessory_state, 0);
	s_bacc r = {sid2(x->data.state_id, a, b), x->data.state_value, x->data.execution_state, x->data.wait_details};
	return r;
}
static s_dacc snap_dacc(GArray *arr, const char *a, const char *b) {
	t_bidib_dcc_accessory_state *x = &g_array_index(arr, t_bidib_dcc_accessory_state, 0);
	s_dacc r = {sid2(x->data.state_id, a, b), x->data.state_value, x->data.coil_on, x->data.output_controls_timing,
	            x->data.ack, x->data.time_unit, x->data.switch_time};
	return r;
}
static snap_t snap(void) {
	snap_t s;
	s.p1 = snap_bacc(bidib_track_state.points_board, "n", "r"); s.s1 = snap_bacc(bidib_track_state.signals_board, "go", "st");
	s.pd = snap_dacc(bidib_track_state.points_dcc, "n", "r"); s.sd = snap_dacc(bidib_track_state.signals_dcc, "go", "st");
	t_bidib_peripheral_state *l = &g_array_index(bidib_track_state.peripherals, t_bidib_peripheral_state, 0);
	s.l1_sid = sid2(l->data.state_id, "on", "of"); s.l1_val = l->data.state_value; s.l1_tu = l->data.time_unit; s.l1_wait = l->data.wait;
	for (int i = 0; i < 2; i++) {
		t_bidib_segment_state_intern *g = &g_array_index(bidib_track_state.segments, t_bidib_segment_state_intern, i);
		s.g[i].occ = g->occupied; s.g[i].cv = g->confidence.conf_void; s.g[i].fr = g->confidence.freeze; s.g[i].ns = g->confidence.nosignal;
		s.g[i].known = g->power_consumption.known; s.g[i].over = g->power_consumption.overcurrent; s.g[i].cur = g->power_consumption.current;
		s.g[i].naddr = g->dcc_addresses->len; s.g[i].al = s.g[i].ah = s.g[i].at = 0;
		if (g->dcc_addresses->len > 0) {
			t_bidib_dcc_address *a = &g_array_index(g->dcc_addresses, t_bidib_dcc_address, 0);
			s.g[i].al = a->addrl; s.g[i].ah = a->addrh; s.g[i].at = a->type;
		}
	}
	t_bidib_reverser_state *r = &g_array_index(bidib_track_state.reversers, t_bidib_reverser_state, 0);
	s.r1_sid = sid2(r->data.state_id, "r1", "r1"); s.r1_val = r->data.state_value;
	t_bidib_train_state_intern *t = &g_array_index(bidib_track_state.trains, t_bidib_train_state_intern, 0);
	s.t_on = t->on_track; s.t_or = t->orientation; s.t_speed = t->set_speed_step; s.t_fwd = t->set_is_forwards; s.t_ack = t->ack;
	s.t_kmh = t->detected_kmh_speed;
	for (int i = 0; i < 2; i++) s.t_f[i] = g_array_index(t->peripherals, t_bidib_train_peripheral_state, i).state;
	s.dk[0] = t->decoder_state.signal_quality_known; s.dv[0] = t->decoder_state.signal_quality;
	s.dk[1] = t->decoder_state.temp_known; s.dv[1] = (uint8_t)t->decoder_state.temp_celsius;
	s.dk[2] = t->decoder_state.energy_storage_known; s.dv[2] = t->decoder_state.energy_storage;
	s.dk[3] = t->decoder_state.container2_storage_known; s.dv[3] = t->decoder_state.container2_storage;
	s.dk[4] = t->decoder_state.container3_storage_known; s.dv[4] = t->decoder_state.container3_storage;
	s.b_pow = s.b_simple = s.b_known = s.b_over = s.b_cur = s.b_vk = s.b_v = s.b_tk = 0; s.b_t = 0;
	if (sbw.has_booster) {
		t_bidib_booster_state *b = &g_array_index(bidib_track_state.boosters, t_bidib_booster_state, 0);
		s.b_pow = b->data.power_state; s.b_simple = b->data.power_state_simple; s.b_known = b->data.power_consumption.known;
		s.b_over = b->data.power_consumption.overcurrent; s.b_cur = b->data.power_consumption.current;
		s.b_vk = b->data.voltage_known; s.b_v = b->data.voltage; s.b_tk = b->data.temp_known; s.b_t = b->data.temp_celsius;
	}
	s.to_cs = sbw.has_track_output ? (unsigned)g_array_index(bidib_track_state.track_outputs, t_bidib_track_output_state, 0).cs_state : 0;
	s.conn = sbw.b1->connected;
	return s;
}
#define EQ(f) (a.f == b.f)
static bool bacc_eq(s_bacc a, s_bacc b) { return EQ(sid) && EQ(val) && EQ(exec) && EQ(wait); }
static bool dacc_eq(s_dacc a, s_dacc b) { return EQ(sid) && EQ(val) && EQ(coil) && EQ(oct) && EQ(ack) && EQ(tu) && EQ(time); }
static bool seg_eq(s_seg a, s_seg b) { return EQ(occ) && EQ(cv) && EQ(fr) && EQ(ns) && EQ(known) && EQ(over) && (EQ(cur) || !a.known || a.over) && EQ(naddr) && EQ(al) && EQ(ah) && EQ(at); }

/* ---- reference pieces ---- */
/* BiDiB current code table (MSG_BM_CURRENT / booster diagnostic value): mA */
static void ref_current(uint8_t c, unsigned *known, unsigned *over, unsigned *cur) {
	if (c == 0) { *known = 1; *over = 0; *cur = 0; }
	else if (c <= 15) { *known = 1; *over = 0; *cur = c; }
	else if (c <= 63) { *known = 1; *over = 0; *cur = (c - 12u) * 4; }
	else if (c <= 127) { *known = 1; *over = 0; *cur = (c - 51u) * 16; }
	else if (c <= 191) { *known = 1; *over = 0; *cur = (c - 108u) * 64; }
	else if (c <= 250) { *known = 1; *over = 0; *cur = (c - 171u) * 256; }
	else if (c == 254) { *known = 1; *over = 1; }
	else { *known = 0; }
}
static int ref_speed(uint8_t dcc) {      /* DCC speed byte -> -126..126 (1 = emergency stop = 0) */
	int m = dcc & 0x7F;
	if (m <= 1) return 0;
	return (dcc & 0x80) ? m - 1 : -(m - 1);
}
static unsigned ref_simple(uint8_t s) {
	switch (s) {
	case 0x80: case 0x81: case 0x82: case 0x84: return BIDIB_BSTR_SIMPLE_ON;
	case 0x00: case 0x03: case 0x04: case 0x05: case 0x06: return BIDIB_BSTR_SIMPLE_OFF;
	default: return BIDIB_BSTR_SIMPLE_ERROR;
	}
}

void harness(void) {
	sb_build();
	t_bidib_board *b1 = sbw.b1;
	t_bidib_train *t1 = sbw.t1;
	t_bidib_node_address node = {ND_u8("node_top"), ND_u8("node_sub"), ND_u8("node_subsub")};
	bool from_b1 = b1->connected && node.top == b1->node_addr.top && node.sub == b1->node_addr.sub && node.subsub == b1->node_addr.subsub;
	t_bidib_dcc_address dcc = {ND_u8("dcc_l"), ND_u8("dcc_h"), 0};
	bool is_t1 = dcc.addrl == t1->dcc_addr.addrl && (dcc.addrh & 0x3F) == t1->dcc_addr.addrh;
	t_bidib_dcc_accessory_mapping *pdm = &g_array_index(b1->points_dcc, t_bidib_dcc_accessory_mapping, 0);
	t_bidib_dcc_accessory_mapping *sdm = &g_array_index(b1->signals_dcc, t_bidib_dcc_accessory_mapping, 0);
	bool is_pd = from_b1 && dcc.addrl == pdm->dcc_addr.addrl && dcc.addrh == pdm->dcc_addr.addrh;
	bool is_sd = from_b1 && !is_pd && dcc.addrl == sdm->dcc_addr.addrl && dcc.addrh == sdm->dcc_addr.addrh;
	uint8_t x = ND_u8("x"), y = ND_u8("y"), z = ND_u8("z"), w = ND_u8("w"), v = ND_u8("v");
	unsigned aid = ND_u8("aid");
	snap_t before = snap();
	snap_t want = before;

#if KIND == 0
	bidib_state_cs_state(node, x, aid);
	if (from_b1 && sbw.has_track_output) want.to_cs = x;
#elif KIND == 1
	bidib_state_cs_drive_ack(dcc, x, aid);
	if (is_t1) want.t_ack = x;
#elif KIND == 2
	pthread_mutex_lock(&trackstate_accessories_mutex); pthread_rwlock_rdlock(&bidib_boards_rwlock);
	bidib_state_cs_accessory_ack(node, dcc, x);
	pthread_rwlock_unlock(&bidib_boards_rwlock); pthread_mutex_unlock(&trackstate_accessories_mutex);
	if (is_pd) want.pd.ack = x;
	if (is_sd) want.sd.ack = x;
#elif KIND == 3
	t_bidib_cs_drive_mod p; p.dcc_address = dcc; p.dcc_format = ND_u8("fmt"); p.active = x; p.speed = y;
	p.function1 = z; p.function2 = w; p.function3 = v; p.function4 = ND_u8("f4");
	pthread_rwlock_wrlock(&bidib_trains_rwlock);
	bidib_state_cs_drive(p);
	pthread_rwlock_unlock(&bidib_trains_rwlock);
	if (is_t1) {
		uint8_t fb[4] = {p.function1, p.function2, p.function3, p.function4};
		if (p.active == 0) { want.t_speed = 0; want.t_fwd = 1; want.t_f[0] = want.t_f[1] = 0; }
		else {
			if (p.active & 1) { want.t_speed = ref_speed(p.speed); want.t_fwd = (p.speed & 0x80) != 0; }
			want.t_ack = BIDIB_DCC_ACK_PENDING;
			for (int i = 0; i < 2; i++) {
				uint8_t bit = g_array_index(t1->peripherals, t_bidib_train_peripheral_mapping, i).bit;
				/* DCC function groups: F0-F4 | F5-F8 | F9-F12 | F13-F20 | F21-F28  <->  active bits 1..5 */
				int grp = bit < 5 ? 1 : (bit >= 8 && bit < 12) ? 2 : (bit >= 12 && bit < 16) ? 3 : (bit >= 16 && bit < 24) ? 4 : bit >= 24 ? 5 : 0;
				if (grp && (p.active & (1 << grp))) want.t_f[i] = (fb[bit / 8] >> (bit % 8)) & 1;
			}
		}
	}
#elif KIND == 4
	pthread_mutex_lock(&trackstate_accessories_mutex); pthread_rwlock_rdlock(&bidib_boards_rwlock);
	bidib_state_cs_accessory_manual(node, dcc, x);
	pthread_rwlock_unlock(&bidib_boards_rwlock); pthread_mutex_unlock(&trackstate_accessories_mutex);
	if (is_pd) { want.pd.val = x & 0x1F; want.pd.coil = (x >> 5) & 1; want.pd.time = 0; }
	if (is_sd) { want.sd.val = x & 0x1F; want.sd.coil = (x >> 5) & 1; want.sd.time = 0; }
#elif KIND == 16
	t_bidib_cs_accessory_mod ap; ap.dcc_address = dcc; ap.data = x; ap.time = y;
	pthread_mutex_lock(&trackstate_accessories_mutex); pthread_rwlock_rdlock(&bidib_boards_rwlock);
	bidib_state_cs_accessory(node, ap);
	pthread_rwlock_unlock(&bidib_boards_rwlock); pthread_mutex_unlock(&trackstate_accessories_mutex);
	if (is_pd || is_sd) {
		s_dacc *d = is_pd ? &want.pd : &want.sd;
		d->sid = 0; d->val = x & 0x1F; d->coil = (x >> 5) & 1; d->oct = !((x >> 6) & 1);
		d->tu = (y & 0x80) ? BIDIB_TIMEUNIT_SECONDS : BIDIB_TIMEUNIT_MILLISECONDS; d->time = y & 0x7F;
	}
#elif KIND == 5 || KIND == 6
	t_bidib_peripheral_port port = {x, y};
	t_bidib_peripheral_mapping *lm = &g_array_index(b1->peripherals, t_bidib_peripheral_mapping, 0);
	bool is_l1 = from_b1 && lm->port.port0 == x && lm->port.port1 == y;
#if KIND == 5
	bidib_state_lc_stat(node, port, z, aid);
	if (is_l1) {
		want.l1_val = z;
		want.l1_sid = g_array_index(lm->aspects, t_bidib_aspect, 0).value == z ? 1 : g_array_index(lm->aspects, t_bidib_aspect, 1).value == z ? 2 : 0;
	}
#else
	bidib_state_lc_wait(node, port, z);
	if (is_l1) { want.l1_tu = (z & 0x80) ? BIDIB_TIMEUNIT_SECONDS : BIDIB_TIMEUNIT_MILLISECONDS; want.l1_wait = z & 0x7F; }
#endif
#elif KIND == 8
	bidib_state_bm_confidence(node, x, y, z, aid);
	if (from_b1) for (int i = 0; i < 2; i++) { want.g[i].cv = x != 0; want.g[i].fr = y != 0; want.g[i].ns = z != 0; }
#elif KIND == 9
	bidib_state_bm_current(node, x, y);
	for (int i = 0; i < 2; i++) {
		if (from_b1 && g_array_index(b1->segments, t_bidib_segment_mapping, i).addr == x)
			ref_current(y, &want.g[i].known, &want.g[i].over, &want.g[i].cur);
	}
#elif KIND == 10
	bidib_state_bm_speed(dcc, x, y);
	if (is_t1) want.t_kmh = ((unsigned)y << 8) | x;
#elif KIND == 11
	bidib_state_bm_dyn_state(dcc, x, y, aid);
	if (is_t1 && x >= 1 && x <= 5) { want.dk[x - 1] = 1; want.dv[x - 1] = y; }
#elif KIND == 12
	bidib_state_boost_state(node, x);
	if (from_b1 && sbw.has_booster) { want.b_pow = x; want.b_simple = ref_simple(x); }
#elif KIND == 13
	uint8_t *list = malloc(2 * NPAIRS);
	for (int i = 0; i < 2 * NPAIRS; i++) list[i] = ND_u8("diag");
	bidib_state_boost_diagnostic(node, 2 * NPAIRS, list, aid);
	if (from_b1 && sbw.has_booster) {
		for (int i = 0; i < NPAIRS; i++) {     /* (key, value) pairs in any order */
			uint8_t k = list[2 * i], val = list[2 * i + 1];
			if (k == 0) ref_current(val, &want.b_known, &want.b_over, &want.b_cur);
			else if (k == 1) { if (val <= 250) { want.b_vk = 1; want.b_v = val; } else want.b_vk = 0; }
			else if (k == 2) { want.b_tk = 1; want.b_t = (int8_t)val; }
		}
	}
	free(list);
#elif KIND == 14
	bidib_state_accessory_state(node, x, y, z, w, v, aid);
	t_bidib_board_accessory_mapping *pm = &g_array_index(b1->points_board, t_bidib_board_accessory_mapping, 0);
	t_bidib_board_accessory_mapping *sm = &g_array_index(b1->signals_board, t_bidib_board_accessory_mapping, 0);
	if (from_b1 && (pm->number == x || sm->number == x)) {
		bool pt = pm->number == x;
		t_bidib_board_accessory_mapping *m = pt ? pm : sm;
		s_bacc *d = pt ? &want.p1 : &want.s1;
		d->val = y; d->exec = w; d->wait = v;
		d->sid = g_array_index(m->aspects, t_bidib_aspect, 0).value == y ? 1 : g_array_index(m->aspects, t_bidib_aspect, 1).value == y ? 2 : 0;
	}
#elif KIND == 15
	/* vendor data: name_len, name.., value_len, value..  (reverser r1 is configured with cv "4") */
	uint8_t list[4] = {1, x, 1, y};
	bidib_state_vendor(node, 4, list, aid);
	if (from_b1 && x == '4') { want.r1_sid = 1; want.r1_val = y == '0' ? BIDIB_REV_EXEC_STATE_OFF : y == '3' ? BIDIB_REV_EXEC_STATE_ON : BIDIB_REV_EXEC_STATE_UNKNOWN; }
#elif KIND == 95
	/* C12 unit: MSG_VENDOR payload with ARBITRARY bytes in an exact-size heap block (length VLEN >= 2, the
	 * dispatcher's minimum): memory safety of the length arithmetic only */
	uint8_t *vl = malloc(VLEN);
	for (int i = 0; i < VLEN; i++) vl[i] = ND_u8("vendor_byte");
	bidib_state_vendor(node, VLEN, vl, aid);
	free(vl);
	want = snap();
#elif KIND == 90
	/* conversions as total functions */
	VASSERT(bidib_dcc_speed_to_lib_format(x) == ref_speed(x), "DCC speed byte -> speed step, all 256 bytes");
	if (y <= 126) {
		uint8_t enc = bidib_lib_speed_to_dcc_format(y, z & 1);
		VASSERT(ref_speed(enc) == ((z & 1) ? (int)y : -(int)y), "speed step -> DCC byte -> speed step round trip");
		VASSERT(((enc & 0x80) != 0) == ((z & 1) != 0), "direction bit kept (also at speed 0)");
		VASSERT((enc & 0x7F) != 1, "a speed command never encodes emergency stop");
	}
	VASSERT((unsigned)bidib_booster_normal_to_simple((t_bidib_booster_power_state)w) == ref_simple(w), "booster state classes");
	t_bidib_segment_state_confidence cf = {x & 1, y & 1, z & 1};
	t_bidib_bm_confidence_level lvl = bidib_bm_confidence_to_level(cf);
	t_bidib_bm_confidence_level wantl = (!cf.conf_void && !cf.freeze && !cf.nosignal) ? BIDIB_BM_CONFIDENCE_ACCURATE :
		(!cf.conf_void && !cf.freeze && cf.nosignal) ? BIDIB_BM_CONFIDENCE_SUBSTITUTED :
		(!cf.conf_void && cf.freeze && cf.nosignal) ? BIDIB_BM_CONFIDENCE_STALE : BIDIB_BM_CONFIDENCE_INVALID;
	VASSERT(lvl == wantl, "confidence level table");
#endif
	snap_t after = snap();
	snap_t a = after, b = want;
	VASSERT(bacc_eq(a.p1, b.p1) && bacc_eq(a.s1, b.s1), "board points/signals: as specified, others unchanged");
	VASSERT(dacc_eq(a.pd, b.pd) && dacc_eq(a.sd, b.sd), "dcc points/signals: as specified, others unchanged");
	VASSERT(EQ(l1_sid) && EQ(l1_val) && EQ(l1_tu) && EQ(l1_wait), "peripheral: as specified / unchanged");
	VASSERT(seg_eq(a.g[0], b.g[0]) && seg_eq(a.g[1], b.g[1]), "segments: as specified / unchanged");
	VASSERT(EQ(r1_sid) && EQ(r1_val), "reverser: as specified / unchanged");
	VASSERT(EQ(t_on) && EQ(t_or) && EQ(t_speed) && EQ(t_fwd) && EQ(t_ack) && EQ(t_kmh) && EQ(t_f[0]) && EQ(t_f[1]), "train: as specified / unchanged");
	VASSERT(EQ(dk[0]) && EQ(dk[1]) && EQ(dk[2]) && EQ(dk[3]) && EQ(dk[4]) && EQ(dv[0]) && EQ(dv[1]) && EQ(dv[2]) && EQ(dv[3]) && EQ(dv[4]), "decoder dynamics: as specified / unchanged");
	VASSERT(EQ(b_pow) && EQ(b_simple) && EQ(b_known) && EQ(b_over) && (EQ(b_cur) || !a.b_known || a.b_over) && EQ(b_vk) && (EQ(b_v) || !a.b_vk) && EQ(b_tk) && (EQ(b_t) || !a.b_tk), "booster: as specified / unchanged");
	VASSERT(EQ(to_cs) && EQ(conn), "track output / connectivity: as specified / unchanged");
	VASSERT(verif_all_free(), "all locks released");
	VWITNESS();
}
