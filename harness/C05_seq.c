/* C05: per-node send sequence numbers follow wire order.
 *
 * unit (real code): src/transmission/bidib_transmission_send.c + bidib_transmission_node_states.c (both
 *                   included: statics reachable), bidib_transmission_util.c, bidib_transmission_responses.c
 * stubs:            bidib_flush_impl -> no-op that asserts the send-buffer mutex is held (the send buffer
 *                   then IS the wire log, in order); clock
 * MODE 0 counter:   bidib_node_state_get_and_incr_send_seqnum from an arbitrary counter value, two nodes,
 *                   table reset.
 * MODE 1 schedule:  virtual thread A runs the real bidib_buffer_message_without_data/with_data; at every lock
 *                   acquisition of A at which A holds no lock the scheduler (solver) may run virtual thread B =
 *                   the whole real send function for the same (SAME=1) or another node, and - nested inside B's
 *                   own lock points - a receiver step R (real bidib_node_state_update).  Stack-shaped
 *                   interleavings of <=3 virtual threads at lock-acquisition granularity (DESIGN 3.4).
 */
#include "verif.h"
#include "verif_glib.h"
#include "ref_bidib.h"
#include "src/transmission/bidib_transmission_send.c"
#include "src/transmission/bidib_transmission_node_states.c"

#ifndef MODE
#define MODE 1
#endif
#ifndef SAME
#define SAME 1
#endif
#ifndef WITHDATA
#define WITHDATA 0
#endif

volatile bool bidib_running;
const char *const bidib_message_string_mapping[0x100];

static bool flush_locked = true;
void verif_flush_stub(void) { if (!verif_held_w(L_SEND_BUFFER)) flush_locked = false; }

static uint8_t next_seq(uint8_t v) { return v == 255 ? 1 : (uint8_t)(v + 1); }

static uint8_t X[4], Y[4];
static uint8_t typeA, typeB;
static bool b_done, r_done, in_b;
static int depth_y;

static void thread_b(void) {
#if WITHDATA
	uint8_t d[2] = {0xAA, 0xBB};
	bidib_buffer_message_with_data(SAME ? X : Y, typeB, 2, d, 2);
#else
	bidib_buffer_message_without_data(SAME ? X : Y, typeB, 2);
#endif
}

void verif_yield(int id) {
	(void)id;
	if (!verif_all_free()) return;          /* a thread that needs a lock A holds would block: not enabled */
	if (!b_done && !in_b && ND_bool("run_B_here")) {
		in_b = true;
		thread_b();
		in_b = false;
		b_done = true;
	}
#ifdef WITH_R
	if (!r_done && ND_bool("run_R_here")) {
		r_done = true;
		bidib_node_state_update(X, ND_u8("resp"));
	}
#endif
}

/* reference parser of the wire log: message at offset off -> its sequence number and destination */
static size_t parse(size_t off, uint8_t *seq, uint8_t *dst, uint8_t *type) {
	size_t j = 1;
	dst[0] = dst[1] = dst[2] = dst[3] = 0;
	for (int i = 0; i < 4; i++) {
		if (j == (size_t)i + 1 && buffer[off + j] != 0) { dst[i] = buffer[off + j]; j++; }
	}
	*seq = buffer[off + j + 1];
	*type = buffer[off + j + 2];
	return off + buffer[off] + 1;
}

void harness(void) {
	bidib_node_state_table_init();
	bidib_seq_num_enabled = true;
#if MODE == 0
	uint8_t a[4] = {ND_u8("a0"), ND_u8("a1"), ND_u8("a2"), 0};
	uint8_t b[4] = {ND_u8("b0"), ND_u8("b1"), ND_u8("b2"), 0};
	VASSUME(a[0] != 0 || (a[1] == 0 && a[2] == 0)); VASSUME(a[1] != 0 || a[2] == 0);
	VASSUME(b[0] != 0 || (b[1] == 0 && b[2] == 0)); VASSUME(b[1] != 0 || b[2] == 0);
	VASSUME(a[0] != b[0] || a[1] != b[1] || a[2] != b[2]);
	t_bidib_node_state *sa = bidib_node_query(a), *sb = bidib_node_query(b);
	VASSERT(sa->send_seqnum == 1 && sb->send_seqnum == 1, "numbering of a new node starts at 1");
	uint8_t v = ND_u8("counter_a"), u = ND_u8("counter_b");
	VASSUME(v != 0 && u != 0);
	sa->send_seqnum = v; sb->send_seqnum = u;
	uint8_t r1 = bidib_node_state_get_and_incr_send_seqnum(a);
	VASSERT(r1 == v && r1 != 0, "returns the node's counter, never 0");
	VASSERT(sa->send_seqnum == next_seq(v) && sa->send_seqnum != 0, "counter advances 1..255 and wraps 255 -> 1");
	VASSERT(sb->send_seqnum == u, "other nodes' counters are independent");
	uint8_t r2 = bidib_node_state_get_and_incr_send_seqnum(a);
	VASSERT(r2 == next_seq(v), "consecutive");
	bidib_node_state_table_reset(true);
	VASSERT(g_hash_table_size(node_state_table) == 0, "reset drops every node");
	uint8_t r3 = bidib_node_state_get_and_incr_send_seqnum(a);
	VASSERT(r3 == 1, "numbering restarts at 1 after a reset");
	VASSERT(verif_all_free(), "locks released");
	VWITNESS();
#else
	/* node addresses: concrete zero pattern (shape), symbolic bytes */
	for (int i = 0; i < 4; i++) { X[i] = 0; Y[i] = 0; }
#if DEPTHX >= 1
	X[0] = ND_u8("x0"); VASSUME(X[0] != 0);
#endif
#if DEPTHX >= 2
	X[1] = ND_u8("x1"); VASSUME(X[1] != 0);
#endif
	Y[0] = ND_u8("y0"); VASSUME(Y[0] != 0 && Y[0] != X[0]);
	t_bidib_node_state *sx = bidib_node_query(X), *sy = bidib_node_query(Y);
	uint8_t v = ND_u8("counter_x"), u = ND_u8("counter_y");
	VASSUME(v != 0 && u != 0);
	sx->send_seqnum = v; sy->send_seqnum = u;
	typeA = ND_u8("typeA"); typeB = ND_u8("typeB");
	VASSUME(typeA < 0x80 && typeB < 0x80);
	/* both fit the budget so both are admitted (deferral is C03/C04's subject) */
	VASSUME(bidib_response_info[typeA][1] + bidib_response_info[typeB][1] <= 48);
	verif_now = 5;

#if WITHDATA
	uint8_t d[2] = {0x11, 0x22};
	bidib_buffer_message_with_data(X, typeA, 2, d, 1);
#else
	bidib_buffer_message_without_data(X, typeA, 1);
#endif
	if (!b_done) { in_b = true; thread_b(); in_b = false; b_done = true; }   /* B after A */

	VASSERT(flush_locked, "flush only with the send-buffer mutex held");
	VASSERT(verif_all_free(), "locks released");
	uint8_t s0, s1, t0, t1, d0[4], d1[4];
	size_t o1 = parse(0, &s0, d0, &t0);
	size_t o2 = parse(o1, &s1, d1, &t1);
	VASSERT(buffer_index == o2, "exactly the two whole messages are in the send buffer (none torn, lost or duplicated)");
#if SAME
	VASSERT(s0 == v && s1 == next_seq(v), "same node: sequence numbers are consecutive in wire order");
#else
	bool x_first = d0[0] == X[0] && d0[1] == X[1];
	VASSERT(x_first ? (s0 == v && s1 == u) : (s0 == u && s1 == v), "different nodes: each numbered from its own counter");
#endif
	VASSERT(sx->send_seqnum == (SAME ? next_seq(next_seq(v)) : next_seq(v)), "counter advanced once per message");
	VWITNESS();
#endif
}
