/* C01-H2 batching and C01-H3 message layout.
 *
 * unit (real code): src/transmission/bidib_transmission_send.c (included): bidib_add_to_buffer,
 *                   bidib_flush, bidib_state_packet_capacity, bidib_buffer_message_with/without_data,
 *                   bidib_buffer_message
 * stubs:            bidib_flush_impl -> verif_flush_stub (goto-instrument --replace-calls): asserts the
 *                   send-buffer mutex is held, records the buffered bytes as ONE packet, clears the buffer
 *                   (its real body is C01-H1's subject); bidib_node_try_send -> nondet verdict;
 *                   sequence number source -> nondet; bidib_extract_address -> real (util.c)
 * MODE 0 (batch):   M messages of concrete total lengths L1..L4 (shape) with arbitrary bytes go through the
 *                   real bidib_add_to_buffer; capacity announcement (any byte) before and optionally again
 *                   before message CAPCHG; final bidib_flush.
 * MODE 1 (layout):  one call of bidib_buffer_message_with_data (DLEN data bytes, DLEN<0: without_data) with an
 *                   arbitrary node address of depth 0..3, type, data, then bidib_flush.
 */
#include "verif.h"
#include "ref_bidib.h"
#include "src/transmission/bidib_transmission_send.c"

#ifndef MODE
#define MODE 0
#endif
#ifndef M
#define M 2
#endif
#ifndef L1
#define L1 5
#endif
#ifndef L2
#define L2 5
#endif
#ifndef L3
#define L3 5
#endif
#ifndef L4
#define L4 5
#endif
#ifndef CAPCHG
#define CAPCHG -1
#endif
#ifndef DLEN
#define DLEN 2
#endif

volatile bool bidib_running;
const char *const bidib_message_string_mapping[0x100];
void bidib_build_message_hex_string(const uint8_t *const m, char *d) { (void)m; (void)d; }

/* ---- packet recorder standing in for bidib_flush_impl ---- */
#define PK_MAX 10
static size_t pk_len[PK_MAX];
static int pk_n;
static size_t rec_k, rec_off;
static int rec_at_k = -1;
static bool rec_locked = true;
void verif_flush_stub(void) {
	if (!verif_held_w(L_SEND_BUFFER)) rec_locked = false;
	if (buffer_index == 0) return;
	VASSUME(pk_n < PK_MAX);
	VASSERT(buffer_index <= PACKET_BUFFER_SIZE, "send buffer index within the buffer");
	pk_len[pk_n++] = buffer_index;
	if (rec_k >= rec_off && rec_k < rec_off + buffer_index) rec_at_k = buffer[rec_k - rec_off];
	rec_off += buffer_index;
	buffer_index = 0;
}

/* ---- node-state layer ---- */
static bool ts_verdict, ts_called;
static uint8_t ts_addr[4], ts_type, ts_len;
static const uint8_t *ts_msg;
static uint8_t seq_next;
static int seq_calls;
bool bidib_node_try_send(const uint8_t *const a, uint8_t t, const uint8_t *const m, unsigned int id) {
	(void)id;
	VASSERT(!ts_called, "try_send called once per message");
	ts_called = true;
	for (int i = 0; i < 4; i++) ts_addr[i] = a[i];
	ts_type = t; ts_msg = m; ts_len = m[0];
	return ts_verdict;
}
uint8_t bidib_node_state_get_and_incr_send_seqnum(const uint8_t *const a) { (void)a; seq_calls++; return seq_next; }

void harness(void) {
	rec_k = ND_u16("K");
	ref_cursor c = {0, rec_k, -1};
#if MODE == 0
	static const int LEN[4] = {L1, L2, L3, L4};
	unsigned cap_in_force, cap_at_add[M];
	size_t prefix[M + 1];
	uint8_t c0 = ND_u8("cap0");
	bool announce = ND_bool("announce");
	cap_in_force = 64;
	if (announce) { bidib_state_packet_capacity(c0); cap_in_force = c0 <= 64 ? 64 : c0; }
	VASSERT(pkt_max_cap == cap_in_force, "capacity in force: 64 unless the interface announced more");
	prefix[0] = 0;
	for (int i = 0; i < M; i++) {
		if (i == CAPCHG) {
			uint8_t c1 = ND_u8("cap1");
			bidib_state_packet_capacity(c1);
			cap_in_force = c1 <= 64 ? 64 : c1;
		}
		uint8_t msg[256];
		msg[0] = (uint8_t)(LEN[i] - 1);
		ref_emit(&c, msg[0]);
		for (int j = 1; j < LEN[i]; j++) { msg[j] = ND_u8("byte"); ref_emit(&c, msg[j]); }
		bidib_add_to_buffer(msg);
		cap_at_add[i] = cap_in_force;
		prefix[i + 1] = prefix[i] + (size_t)LEN[i];
		VASSERT(buffer_index <= PACKET_BUFFER_SIZE, "send buffer index within the buffer");
	}
	bidib_flush();
	/* oracle */
	VASSERT(rec_locked, "flush only ever runs with the send-buffer mutex held");
	VASSERT(buffer_index == 0, "nothing left after the flush");
	VASSERT(rec_off == c.pos, "flushed bytes = all message bytes (nothing dropped or duplicated)");
	VASSERT(rec_at_k == c.at_k, "packets concatenated == messages concatenated (arbitrary position)");
	size_t cum = 0;
	int first = 0;                 /* index of the first message of the current packet */
	for (int j = 0; j < PK_MAX; j++) {
		if (j >= pk_n) continue;
		cum += pk_len[j];
		int last = -1;
		for (int i = 0; i < M; i++) if (prefix[i + 1] == cum) last = i;
		VASSERT(last >= 0, "every packet boundary is a message boundary (no torn message)");
		if (last >= 0) {
			if (last > first) {
				unsigned capl = 0;
				for (int i = 0; i < M; i++) if (i == last) capl = cap_at_add[i];
				VASSERT(pk_len[j] <= capl, "a packet with more than one message never exceeds the capacity in force when it was filled");
			}
			first = last + 1;
		}
	}
#else
	uint8_t addr[4];
#ifdef ADEPTH
	/* shape: address depth concrete and address bytes concrete (1.2.3) so that the VLA size is */
	for (int i = 0; i < 4; i++) { addr[i] = 0; if (i < ADEPTH) addr[i] = (uint8_t)(i + 1); }
#else
	addr[0] = ND_u8("a0"); addr[1] = ND_u8("a1"); addr[2] = ND_u8("a2"); addr[3] = 0;
#endif
	uint8_t type = ND_u8("type");
	bool seq_on = ND_bool("seq_enabled");
	bidib_seq_num_enabled = seq_on;
	seq_next = ND_u8("seq"); VASSUME(seq_next != 0);
	ts_verdict = ND_bool("admit");
	int depth = ref_addr_depth(addr);
#if DLEN >= 0
	uint8_t data[DLEN + 1];
	for (int i = 0; i < DLEN; i++) data[i] = ND_u8("data");
	bidib_buffer_message_with_data(addr, type, DLEN, data, 5);
	int dl = DLEN;
#else
	bidib_buffer_message_without_data(addr, type, 5);
	int dl = 0;
#endif
	bidib_flush();
	uint8_t seq = seq_on ? seq_next : 0;
	/* reference layout: LEN, addr[0..depth), 0, SEQ, TYPE, data */
	ref_emit(&c, (uint8_t)(depth + 3 + dl));
	for (int i = 0; i < 3; i++) if (i < depth) ref_emit(&c, addr[i]);
	ref_emit(&c, 0);
	ref_emit(&c, seq);
	ref_emit(&c, type);
#if DLEN > 0
	for (int i = 0; i < DLEN; i++) ref_emit(&c, data[i]);
#endif
	VASSERT(ts_called, "admission asked exactly once");
	VASSERT(seq_calls == (seq_on ? 1 : 0), "a sequence number is drawn iff numbering is enabled");
	VASSERT(ts_type == type, "admission asked for the message type");
	/* effective destination: the stack ends at its first 0 byte */
	VASSERT(ts_addr[0] == (depth > 0 ? addr[0] : 0) && ts_addr[1] == (depth > 1 ? addr[1] : 0) &&
	        ts_addr[2] == (depth > 2 ? addr[2] : 0) && ts_addr[3] == 0,
	        "admission asked for the destination node");
	VASSERT(ts_len == depth + 3 + dl, "length byte counts the bytes that follow");
	VASSERT(rec_locked, "flush only with the mutex held");
	if (ts_verdict) {
		VASSERT(pk_n == 1 && rec_off == c.pos, "an admitted message is buffered exactly once");
		VASSERT(rec_at_k == c.at_k, "buffered bytes are the reference encoding of the call's arguments");
	} else {
		VASSERT(pk_n == 0 && rec_off == 0, "a deferred message is not buffered by the caller");
	}
#endif
	VASSERT(verif_all_free(), "all locks released");
	VWITNESS();
}
