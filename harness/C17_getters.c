/* C17: query results are initialised deep copies, safe to free once for known / unknown / NULL ids; the
 * whole-track snapshot agrees with the single-entity getters.
 *
 * unit (real code): src/highlevel/bidib_highlevel_getter.c (all public getters + free functions),
 *                   src/state/bidib_state_getter.c, bidib_state_free.c, bidib_state.c
 * state:            state_builder.h world, arbitrary contents; the id argument is a symbolic string of <=2
 *                   characters or NULL (IDNULL)
 * per getter G (shape): r1 = G(id); r2 = G(id);
 *   determinate   every flag / count / pointer-nullness field, and every value field behind a true flag, is equal in
 *                 r1 and r2: CBMC gives uninitialised stack and heap a fresh nondeterministic value per call, so a
 *                 field that depends on uninitialised memory differs in some model
 *   deep copy     then the whole library state is released (bidib_state_free, real) and r1 is read again and compared
 *                 with r2: any pointer into the state would now be a dangling dereference (CBMC pointer checks)
 *   safe to free  the documented free function is called once on r1 and once on r2 (invalid free / double free checks)
 * SNAPSHOT:       bidib_get_state() entry for every entity == the single-entity getter on the same state
 */
#define SB_SEG_ADDRS 2
#include "verif.h"
#include "state_builder.h"
#include "include/bidib.h"
#include "src/state/bidib_state_intern.h"

#ifndef GETTER
#define GETTER 0
#endif

volatile bool bidib_running;
pthread_rwlock_t bidib_trains_rwlock, bidib_boards_rwlock;
pthread_mutex_t trackstate_accessories_mutex, trackstate_peripherals_mutex, trackstate_segments_mutex,
	trackstate_reversers_mutex, trackstate_trains_mutex, trackstate_boosters_mutex,
	trackstate_track_outputs_mutex;

static bool seq(const char *a, const char *b) {
	if (a == NULL || b == NULL) return a == b;
	for (int i = 0; i < 8; i++) { if (a[i] != b[i]) return false; if (a[i] == 0) return true; }
	return true;
}
#define F(f) (a.f == b.f)
#define S(f) (seq(a.f, b.f) && (a.f == NULL || a.f != b.f))        /* equal text, distinct buffers */

static bool eq_bacc(t_bidib_board_accessory_state_data a, t_bidib_board_accessory_state_data b) { return S(state_id) && F(state_value) && F(execution_state) && F(wait_details); }
static bool eq_dacc(t_bidib_dcc_accessory_state_data a, t_bidib_dcc_accessory_state_data b) { return S(state_id) && F(state_value) && F(coil_on) && F(output_controls_timing) && F(ack) && F(time_unit) && F(switch_time); }
static bool eq_unified(t_bidib_unified_accessory_state_query a, t_bidib_unified_accessory_state_query b) {
	if (!F(known) || !F(type)) return false;
	if (a.type == BIDIB_ACCESSORY_BOARD) return a.known ? eq_bacc(a.board_accessory_state, b.board_accessory_state) : ((a.board_accessory_state.state_id == NULL) == (b.board_accessory_state.state_id == NULL));
	return a.known ? eq_dacc(a.dcc_accessory_state, b.dcc_accessory_state) : ((a.dcc_accessory_state.state_id == NULL) == (b.dcc_accessory_state.state_id == NULL));
}
static bool eq_per(t_bidib_peripheral_state_query a, t_bidib_peripheral_state_query b) {
	if (!F(available)) return false;
	if (!a.available) return (a.data.state_id == NULL) == (b.data.state_id == NULL);
	return S(data.state_id) && F(data.state_value) && F(data.time_unit) && F(data.wait);
}
static bool eq_pc(t_bidib_power_consumption a, t_bidib_power_consumption b) { return F(known) && (!a.known || (F(overcurrent) && (a.overcurrent || F(current)))); }
static bool eq_segdata(t_bidib_segment_state_data a, t_bidib_segment_state_data b) {
	if (!(F(occupied) && F(confidence.conf_void) && F(confidence.freeze) && F(confidence.nosignal) && eq_pc(a.power_consumption, b.power_consumption) && F(dcc_address_cnt))) return false;
	if ((a.dcc_addresses == NULL) != (b.dcc_addresses == NULL)) return false;
	for (size_t i = 0; i < 3; i++) if (i < a.dcc_address_cnt && (a.dcc_addresses[i].addrl != b.dcc_addresses[i].addrl || a.dcc_addresses[i].addrh != b.dcc_addresses[i].addrh || a.dcc_addresses[i].type != b.dcc_addresses[i].type)) return false;
	return true;
}
static bool eq_seg(t_bidib_segment_state_query a, t_bidib_segment_state_query b) {
	if (!F(known)) return false;
	if (!a.known) return (a.data.dcc_addresses == NULL) == (b.data.dcc_addresses == NULL);
	return eq_segdata(a.data, b.data);
}
static bool eq_rev(t_bidib_reverser_state_query a, t_bidib_reverser_state_query b) {
	if (!F(available)) return false;
	if (!a.available) return (a.data.state_id == NULL) == (b.data.state_id == NULL);
	return S(data.state_id) && F(data.state_value);
}
static bool eq_uid(t_bidib_unique_id_query a, t_bidib_unique_id_query b) {
	return F(known) && (!a.known || (F(unique_id.class_id) && F(unique_id.class_id_ext) && F(unique_id.vendor_id) && F(unique_id.product_id1) && F(unique_id.product_id2) && F(unique_id.product_id3) && F(unique_id.product_id4)));
}
static bool eq_na(t_bidib_node_address_query a, t_bidib_node_address_query b) { return F(known_and_connected) && (!a.known_and_connected || (F(address.top) && F(address.sub) && F(address.subsub))); }
static bool eq_id(t_bidib_id_query a, t_bidib_id_query b) { return F(known) && (a.known ? S(id) : (a.id == NULL) == (b.id == NULL)); }
static bool eq_list(t_bidib_id_list_query a, t_bidib_id_list_query b) {
	if (!F(length) || (a.ids == NULL) != (b.ids == NULL)) return false;
	for (size_t i = 0; i < 4; i++) if (i < a.length && !S(ids[i])) return false;
	return true;
}
static bool eq_feat(t_bidib_board_features_query a, t_bidib_board_features_query b) { return F(length) && (a.features == NULL) == (b.features == NULL); }
static bool eq_bst(t_bidib_booster_state_query a, t_bidib_booster_state_query b) {
	return F(known) && (!a.known || (F(data.power_state) && F(data.power_state_simple) && eq_pc(a.data.power_consumption, b.data.power_consumption) && F(data.voltage_known) && (!a.data.voltage_known || F(data.voltage)) && F(data.temp_known) && (!a.data.temp_known || F(data.temp_celsius))));
}
static bool eq_to(t_bidib_track_output_state_query a, t_bidib_track_output_state_query b) { return F(known) && (!a.known || F(cs_state)); }
static bool eq_dcc(t_bidib_dcc_address_query a, t_bidib_dcc_address_query b) { return F(known) && (!a.known || (F(dcc_address.addrl) && F(dcc_address.addrh) && F(dcc_address.type))); }
static bool eq_dec(t_bidib_train_decoder_state a, t_bidib_train_decoder_state b) {
	return F(signal_quality_known) && (!a.signal_quality_known || F(signal_quality)) && F(temp_known) && (!a.temp_known || F(temp_celsius)) && F(energy_storage_known) && (!a.energy_storage_known || F(energy_storage)) &&
	       F(container2_storage_known) && (!a.container2_storage_known || F(container2_storage)) && F(container3_storage_known) && (!a.container3_storage_known || F(container3_storage));
}
static bool eq_traindata(t_bidib_train_state_data a, t_bidib_train_state_data b) {
	if (!(F(on_track) && F(orientation) && F(set_speed_step) && F(set_is_forwards) && F(ack) && F(detected_kmh_speed) && F(peripheral_cnt) && eq_dec(a.decoder_state, b.decoder_state))) return false;
	if ((a.peripherals == NULL) != (b.peripherals == NULL)) return false;
	for (size_t i = 0; i < 3; i++) if (i < a.peripheral_cnt && (!S(peripherals[i].id) || !F(peripherals[i].state))) return false;
	return true;
}
static bool eq_train(t_bidib_train_state_query a, t_bidib_train_state_query b) {
	if (!F(known)) return false;
	if (!a.known) return (a.data.peripherals == NULL) == (b.data.peripherals == NULL);
	return eq_traindata(a.data, b.data);
}
static bool eq_tper(t_bidib_train_peripheral_state_query a, t_bidib_train_peripheral_state_query b) { return F(available) && (!a.available || F(state)); }
static bool eq_pos(t_bidib_train_position_query a, t_bidib_train_position_query b) {
	if (!F(length) || (a.segments == NULL) != (b.segments == NULL)) return false;
	if (a.length > 0 && !F(orientation_is_left)) return false;
	for (size_t i = 0; i < 4; i++) if (i < a.length && !S(segments[i])) return false;
	return true;
}
static bool eq_step(t_bidib_train_speed_step_query a, t_bidib_train_speed_step_query b) { return F(known_and_avail) && (!a.known_and_avail || (F(speed_step) && F(is_forwards))); }
static bool eq_kmh(t_bidib_train_speed_kmh_query a, t_bidib_train_speed_kmh_query b) { return F(known_and_avail) && (!a.known_and_avail || F(speed_kmh)); }
static void nofree_b(bool x) { (void)x; }
#define NOFREE(T) static void nofree_##T(T x) { (void)x; }
NOFREE(t_bidib_unique_id_query) NOFREE(t_bidib_node_address_query) NOFREE(t_bidib_booster_state_query)
NOFREE(t_bidib_track_output_state_query) NOFREE(t_bidib_dcc_address_query) NOFREE(t_bidib_train_peripheral_state_query)
NOFREE(t_bidib_train_speed_step_query) NOFREE(t_bidib_train_speed_kmh_query)
static bool eq_bool(bool a, bool b) { return a == b; }

void bidib_state_free(void);

#define RUN(T, CALL, EQ, FREE) do { \
	verif_locks_reset(); \
	T r1 = CALL; \
	VASSERT(verif_max_acq() <= 1, "the getter takes every lock at most once (all reads of a structure happen in one critical section: the copy is a state that existed at one instant)"); \
	T r2 = CALL; \
	VASSERT(EQ(r1, r2), "result is fully determined by the state and independent of the second copy (no uninitialised field, distinct buffers)"); \
	VASSERT(verif_all_free(), "getter released its locks"); \
	bidib_state_free(); \
	VASSERT(EQ(r1, r2), "result stays valid and unchanged after the library released its state (deep copy)"); \
	FREE(r1); FREE(r2); \
} while (0)

void harness(void) {
	sb_build();
	char idbuf[3];
	idbuf[0] = (char)ND_u8("id0"); idbuf[1] = (char)ND_u8("id1"); idbuf[2] = 0;
	if (idbuf[0] == 0) idbuf[1] = 0;
#ifdef IDNULL
	const char *id = NULL;
#else
	const char *id = idbuf;
#endif
#ifdef IDKNOWN
	idbuf[0] = IDKNOWN[0]; idbuf[1] = IDKNOWN[1];
#endif
	t_bidib_unique_id_mod uid = {ND_u8("u0"), ND_u8("u1"), ND_u8("u2"), ND_u8("u3"), ND_u8("u4"), ND_u8("u5"), ND_u8("u6")};
	t_bidib_node_address na = {ND_u8("n0"), ND_u8("n1"), ND_u8("n2")};
	t_bidib_dcc_address da = {ND_u8("d0"), ND_u8("d1"), ND_u8("d2")};
	(void)uid; (void)na; (void)da; (void)id;
#if GETTER == 0
	RUN(t_bidib_unified_accessory_state_query, bidib_get_point_state(id), eq_unified, bidib_free_unified_accessory_state_query);
#elif GETTER == 1
	RUN(t_bidib_unified_accessory_state_query, bidib_get_signal_state(id), eq_unified, bidib_free_unified_accessory_state_query);
#elif GETTER == 2
	RUN(t_bidib_peripheral_state_query, bidib_get_peripheral_state(id), eq_per, bidib_free_peripheral_state_query);
#elif GETTER == 3
	RUN(t_bidib_segment_state_query, bidib_get_segment_state(id), eq_seg, bidib_free_segment_state_query);
#elif GETTER == 4
	RUN(t_bidib_reverser_state_query, bidib_get_reverser_state(id), eq_rev, bidib_free_reverser_state_query);
#elif GETTER == 5
	RUN(t_bidib_unique_id_query, bidib_get_uniqueid(id), eq_uid, nofree_t_bidib_unique_id_query);
#elif GETTER == 6
	RUN(t_bidib_unique_id_query, bidib_get_uniqueid_by_nodeaddr(na), eq_uid, nofree_t_bidib_unique_id_query);
#elif GETTER == 7
	RUN(t_bidib_node_address_query, bidib_get_nodeaddr(id), eq_na, nofree_t_bidib_node_address_query);
#elif GETTER == 8
	RUN(t_bidib_node_address_query, bidib_get_nodeaddr_by_uniqueid(uid), eq_na, nofree_t_bidib_node_address_query);
#elif GETTER == 9
	RUN(t_bidib_id_query, bidib_get_board_id(uid), eq_id, bidib_free_id_query);
#elif GETTER == 10
	RUN(t_bidib_id_list_query, bidib_get_boards(), eq_list, bidib_free_id_list_query);
#elif GETTER == 11
	RUN(t_bidib_id_list_query, bidib_get_boards_connected(), eq_list, bidib_free_id_list_query);
#elif GETTER == 12
	RUN(bool, bidib_get_board_connected(id), eq_bool, nofree_b);
#elif GETTER == 13
	RUN(t_bidib_board_features_query, bidib_get_board_features(id), eq_feat, bidib_free_board_features_query);
#elif GETTER == 14
	RUN(t_bidib_id_list_query, bidib_get_board_points(id), eq_list, bidib_free_id_list_query);
#elif GETTER == 15
	RUN(t_bidib_id_list_query, bidib_get_board_signals(id), eq_list, bidib_free_id_list_query);
#elif GETTER == 16
	RUN(t_bidib_id_list_query, bidib_get_board_peripherals(id), eq_list, bidib_free_id_list_query);
#elif GETTER == 17
	RUN(t_bidib_id_list_query, bidib_get_board_segments(id), eq_list, bidib_free_id_list_query);
#elif GETTER == 18
	RUN(t_bidib_id_list_query, bidib_get_board_reversers(id), eq_list, bidib_free_id_list_query);
#elif GETTER == 19
	RUN(t_bidib_id_list_query, bidib_get_connected_points(), eq_list, bidib_free_id_list_query);
#elif GETTER == 20
	RUN(t_bidib_id_list_query, bidib_get_connected_signals(), eq_list, bidib_free_id_list_query);
#elif GETTER == 21
	RUN(t_bidib_id_list_query, bidib_get_connected_peripherals(), eq_list, bidib_free_id_list_query);
#elif GETTER == 22
	RUN(t_bidib_id_list_query, bidib_get_connected_segments(), eq_list, bidib_free_id_list_query);
#elif GETTER == 23
	RUN(t_bidib_id_list_query, bidib_get_connected_reversers(), eq_list, bidib_free_id_list_query);
#elif GETTER == 24
	RUN(t_bidib_id_list_query, bidib_get_connected_boosters(), eq_list, bidib_free_id_list_query);
#elif GETTER == 25
	RUN(t_bidib_id_list_query, bidib_get_boosters(), eq_list, bidib_free_id_list_query);
#elif GETTER == 26
	RUN(t_bidib_id_list_query, bidib_get_track_outputs(), eq_list, bidib_free_id_list_query);
#elif GETTER == 27
	RUN(t_bidib_id_list_query, bidib_get_connected_track_outputs(), eq_list, bidib_free_id_list_query);
#elif GETTER == 28
	RUN(t_bidib_booster_state_query, bidib_get_booster_state(id), eq_bst, nofree_t_bidib_booster_state_query);
#elif GETTER == 29
	RUN(t_bidib_track_output_state_query, bidib_get_track_output_state(id), eq_to, nofree_t_bidib_track_output_state_query);
#elif GETTER == 30
	RUN(t_bidib_id_list_query, bidib_get_trains(), eq_list, bidib_free_id_list_query);
#elif GETTER == 31
	RUN(t_bidib_id_list_query, bidib_get_trains_on_track(), eq_list, bidib_free_id_list_query);
#elif GETTER == 32
	RUN(t_bidib_id_list_query, bidib_get_train_peripherals(id), eq_list, bidib_free_id_list_query);
#elif GETTER == 33
	RUN(t_bidib_id_query, bidib_get_train_id(da), eq_id, bidib_free_id_query);
#elif GETTER == 34
	RUN(t_bidib_dcc_address_query, bidib_get_train_dcc_addr(id), eq_dcc, nofree_t_bidib_dcc_address_query);
#elif GETTER == 35
	RUN(t_bidib_train_state_query, bidib_get_train_state(id), eq_train, bidib_free_train_state_query);
#elif GETTER == 36
	{ char p2[3] = {(char)ND_u8("p0"), (char)ND_u8("p1"), 0}; if (p2[0] == 0) p2[1] = 0;
	  RUN(t_bidib_train_peripheral_state_query, bidib_get_train_peripheral_state(id, p2), eq_tper, nofree_t_bidib_train_peripheral_state_query); }
#elif GETTER == 37
	RUN(t_bidib_train_position_query, bidib_get_train_position(id), eq_pos, bidib_free_train_position_query);
#elif GETTER == 38
	RUN(t_bidib_train_speed_step_query, bidib_get_train_speed_step(id), eq_step, nofree_t_bidib_train_speed_step_query);
#elif GETTER == 39
	RUN(t_bidib_train_speed_kmh_query, bidib_get_train_speed_kmh(id), eq_kmh, nofree_t_bidib_train_speed_kmh_query);
#elif GETTER == 40
	RUN(bool, bidib_get_train_on_track(id), eq_bool, nofree_b);
#elif GETTER == 41
	RUN(t_bidib_id_list_query, bidib_get_point_aspects(id), eq_list, bidib_free_id_list_query);
#elif GETTER == 42
	RUN(t_bidib_id_list_query, bidib_get_signal_aspects(id), eq_list, bidib_free_id_list_query);
#elif GETTER == 43
	RUN(t_bidib_id_list_query, bidib_get_peripheral_aspects(id), eq_list, bidib_free_id_list_query);
#elif GETTER == 50
	/* snapshot vs single-entity getters, all fields */
	t_bidib_track_state st = bidib_get_state();
	VASSERT(st.points_board_count == 1 && st.points_dcc_count == 1 && st.signals_board_count == 1 && st.signals_dcc_count == 1 && st.peripherals_count == 1 &&
	        st.segments_count == 2 && st.reversers_count == 1 && st.trains_count == 1 && st.booster_count == (sbw.has_booster ? 1u : 0u) &&
	        st.track_outputs_count == (sbw.has_track_output ? 1u : 0u), "snapshot lists every configured entity");
	t_bidib_unified_accessory_state_query p1 = bidib_get_point_state("p1"), pd = bidib_get_point_state("pd"), s1 = bidib_get_signal_state("s1"), sd = bidib_get_signal_state("sd");
	VASSERT(p1.known && p1.type == BIDIB_ACCESSORY_BOARD && seq(st.points_board[0].id, "p1") && eq_bacc(st.points_board[0].data, p1.board_accessory_state), "snapshot == bidib_get_point_state (board)");
	VASSERT(pd.known && pd.type == BIDIB_ACCESSORY_DCC && seq(st.points_dcc[0].id, "pd") && eq_dacc(st.points_dcc[0].data, pd.dcc_accessory_state), "snapshot == bidib_get_point_state (dcc)");
	VASSERT(s1.known && eq_bacc(st.signals_board[0].data, s1.board_accessory_state), "snapshot == bidib_get_signal_state (board)");
	VASSERT(sd.known && eq_dacc(st.signals_dcc[0].data, sd.dcc_accessory_state), "snapshot == bidib_get_signal_state (dcc)");
	t_bidib_peripheral_state_query l1 = bidib_get_peripheral_state("l1");
	{ t_bidib_peripheral_state_query x = {true, st.peripherals[0].data}; VASSERT(l1.available && eq_per(x, l1), "snapshot == bidib_get_peripheral_state"); }
	t_bidib_segment_state_query g1 = bidib_get_segment_state("g1"), g2 = bidib_get_segment_state("g2");
	VASSERT(g1.known && g2.known && eq_segdata(st.segments[0].data, g1.data) && eq_segdata(st.segments[1].data, g2.data), "snapshot == bidib_get_segment_state");
	t_bidib_reverser_state_query r1 = bidib_get_reverser_state("r1");
	{ t_bidib_reverser_state_query x = {true, st.reversers[0].data}; VASSERT(r1.available && eq_rev(x, r1), "snapshot == bidib_get_reverser_state"); }
	t_bidib_train_state_query t1 = bidib_get_train_state("t1");
	VASSERT(t1.known && eq_traindata(st.trains[0].data, t1.data), "snapshot == bidib_get_train_state");
	if (sbw.has_booster) { t_bidib_booster_state_query b = bidib_get_booster_state("b1"); t_bidib_booster_state_query x = {true, st.booster[0].data}; VASSERT(b.known && eq_bst(x, b), "snapshot == bidib_get_booster_state"); }
	if (sbw.has_track_output) { t_bidib_track_output_state_query o = bidib_get_track_output_state("b1"); VASSERT(o.known && o.cs_state == st.track_outputs[0].cs_state, "snapshot == bidib_get_track_output_state"); }
	bidib_free_unified_accessory_state_query(p1); bidib_free_unified_accessory_state_query(pd); bidib_free_unified_accessory_state_query(s1); bidib_free_unified_accessory_state_query(sd);
	bidib_free_peripheral_state_query(l1); bidib_free_segment_state_query(g1); bidib_free_segment_state_query(g2); bidib_free_reverser_state_query(r1);
	bidib_free_train_state_query(t1);
	bidib_state_free();
	bidib_free_track_state(st);
#endif
	VWITNESS();
}
