/* Reference models written from the BiDiB serial-link description (not from library code):
 *   CRC8 Dallas/Maxim, polynomial x^8+x^5+x^4+1, reflected (0x8C), init 0
 *   packet  = FE  esc(payload)  esc(crc(payload))  FE ;  esc(b) = FD, b^0x20 for b in {FE, FD}
 *   message = LEN  ADDR.. 0  SEQ  TYPE  DATA..   with LEN = number of bytes that follow
 */
#ifndef REF_BIDIB_H
#define REF_BIDIB_H
#include <stdint.h>
#include <stdbool.h>
#include <stddef.h>

static inline uint8_t ref_crc8_byte(uint8_t crc, uint8_t b) {
	crc ^= b;
	for (int k = 0; k < 8; k++) {
		crc = (crc & 1) ? (uint8_t)((crc >> 1) ^ 0x8C) : (uint8_t)(crc >> 1);
	}
	return crc;
}

/* stream cursor that remembers only the byte at one arbitrary position K (DESIGN 3.1) */
typedef struct { size_t pos; size_t k; int at_k; } ref_cursor;
static inline void ref_emit(ref_cursor *c, uint8_t b) {
	if (c->pos == c->k) c->at_k = b;
	c->pos++;
}
static inline void ref_emit_escaped(ref_cursor *c, uint8_t b) {
	if (b == 0xFE || b == 0xFD) { ref_emit(c, 0xFD); ref_emit(c, (uint8_t)(b ^ 0x20)); }
	else ref_emit(c, b);
}

/* depth of a node address stack as the documentation defines it (index 3 must be 0) */
static inline int ref_addr_depth(const uint8_t *a) {
	return a[0] == 0 ? 0 : a[1] == 0 ? 1 : a[2] == 0 ? 2 : 3;
}
#endif
