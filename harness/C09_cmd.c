/* C09: high-level commands emit exactly the configured messages, or nothing (return 1).
 *
 * unit (real code): src/highlevel/bidib_highlevel_setter.c, bidib_highlevel_action_ids.c, all src/lowlevel/*.c,
 *                   bidib_transmission_send.c (message construction), bidib_transmission_util.c,
 *                   src/state/bidib_state_getter.c, bidib_state_setter.c (optimistic updates), bidib_state.c
 * stubs:            bidib_node_try_send = capture of every submitted message (answers 'deferred');
 *                   sequence numbers constant
 * state:            state_builder.h world with symbolic contents; command arguments are SYMBOLIC STRINGS of up
 *                   to 2 characters (so the solver picks known / unknown / wrong-kind ids and aspects)
 * CMD:              0 switch_point 1 set_signal 2 set_peripheral 3 set_train_speed 4 set_calibrated_train_speed
 *                   5 emergency_stop_train 6 set_train_peripheral 7 set_booster_power_state
 *                   8 set_track_output_state 9 request_reverser_state 10 set_track_output_state_all
 * precondition (documented validity of configurations, C14): accessory numbers and aspect values <= 127, dcc aspect
 *                   ports <= 31 with values 0/1, train function bits in {0..4, 8..31}
 */
#define SB_SEG_ADDRS 1
#define SB_SEGMENTS 1
#include "verif.h"
#include "ref_bidib.h"
#include "state_builder.h"
#include "include/bidib.h"
#include "src/state/bidib_state_getter_intern.h"

#ifndef CMD
#define CMD 0
#endif

volatile bool bidib_running;
pthread_rwlock_t bidib_trains_rwlock, bidib_boards_rwlock;
pthread_mutex_t trackstate_accessories_mutex, trackstate_peripherals_mutex, trackstate_segments_mutex,
	trackstate_reversers_mutex, trackstate_trains_mutex, trackstate_boosters_mutex,
	trackstate_track_outputs_mutex, bidib_node_state_table_mutex, bidib_action_id_mutex;
const char *const bidib_message_string_mapping[0x100];
const char *const bidib_cs_state_string_mapping[9];

/* ---- capture ---- */
#define CAP_N 3
#define CAP_LEN 20
static int cap_n;
static uint8_t cap[CAP_N][CAP_LEN];
static uint8_t cap_type[CAP_N], cap_addr[CAP_N][4];
bool bidib_node_try_send(const uint8_t *const a, uint8_t t, const uint8_t *const m, unsigned int id) {
	(void)id;
	VASSUME(cap_n < CAP_N);
	cap_type[cap_n] = t;
	for (int i = 0; i < 4; i++) cap_addr[cap_n][i] = a[i];
	for (size_t i = 0; i < CAP_LEN; i++) cap[cap_n][i] = (i <= m[0]) ? m[i] : 0;
	cap_n++;
	return false;
}
uint8_t bidib_node_state_get_and_incr_send_seqnum(const uint8_t *const a) { (void)a; return 7; }

/* symbolic id: NUL-terminated string of at most 2 characters */
static void sym_id(char *d) {
	d[0] = (char)ND_u8("id0"); d[1] = (char)ND_u8("id1"); d[2] = 0;
	if (d[0] == 0) d[1] = 0;
}
static bool eq(const char *a, const char *b) { return a[0] == b[0] && (a[0] == 0 || (a[1] == b[1] && (a[1] == 0 || a[2] == b[2]))); }

/* message k is type t to board address na with data d[0..n) */
static bool msg_is(int k, uint8_t t, t_bidib_node_address na, const uint8_t *d, int n) {
	uint8_t a[3] = {na.top, na.sub, na.subsub};
	int depth = ref_addr_depth(a);
	if (cap_type[k] != t) return false;
	if (cap[k][0] != depth + 3 + n) return false;
	for (int i = 0; i < 3; i++) if (i < depth && cap[k][1 + i] != a[i]) return false;
	if (cap[k][1 + depth] != 0 || cap[k][3 + depth] != t) return false;
	for (int i = 0; i < 12; i++) if (i < n && cap[k][4 + depth + i] != d[i]) return false;
	return true;
}
static uint8_t fmt_of(uint8_t steps) { return steps == 28 ? 2 : steps == 126 ? 3 : 0; }

/* snapshot of the parts of the tracked state the commands may touch */
typedef struct {
	int speed; bool fwd; int ack; uint8_t f[2];
	uint8_t pd_val; bool pd_coil, pd_oct; int pd_tu; uint8_t pd_time; int pd_sid;   /* sid: 0 NULL, 1 first aspect, 2 second */
	uint8_t sd_val; int sd_sid;
	int rev_val;
} snap_t;
static int sid_of(const char *s, const char *a, const char *b) { return s == NULL ? 0 : eq(s, a) ? 1 : eq(s, b) ? 2 : 3; }
static snap_t snap(void) {
	snap_t s;
	t_bidib_train_state_intern *ts = &g_array_index(bidib_track_state.trains, t_bidib_train_state_intern, 0);
	s.speed = ts->set_speed_step; s.fwd = ts->set_is_forwards; s.ack = ts->ack;
	s.f[0] = g_array_index(ts->peripherals, t_bidib_train_peripheral_state, 0).state;
	s.f[1] = g_array_index(ts->peripherals, t_bidib_train_peripheral_state, 1).state;
	t_bidib_dcc_accessory_state *pd = &g_array_index(bidib_track_state.points_dcc, t_bidib_dcc_accessory_state, 0);
	s.pd_val = pd->data.state_value; s.pd_coil = pd->data.coil_on; s.pd_oct = pd->data.output_controls_timing;
	s.pd_tu = pd->data.time_unit; s.pd_time = pd->data.switch_time; s.pd_sid = sid_of(pd->data.state_id, "n", "r");
	t_bidib_dcc_accessory_state *sd = &g_array_index(bidib_track_state.signals_dcc, t_bidib_dcc_accessory_state, 0);
	s.sd_val = sd->data.state_value; s.sd_sid = sid_of(sd->data.state_id, "go", "st");
	s.rev_val = g_array_index(bidib_track_state.reversers, t_bidib_reverser_state, 0).data.state_value;
	return s;
}
static bool snap_eq(snap_t a, snap_t b) {
	return a.speed == b.speed && a.fwd == b.fwd && a.ack == b.ack && a.f[0] == b.f[0] && a.f[1] == b.f[1] &&
	       a.pd_val == b.pd_val && a.pd_coil == b.pd_coil && a.pd_oct == b.pd_oct && a.pd_tu == b.pd_tu &&
	       a.pd_time == b.pd_time && a.pd_sid == b.pd_sid && a.sd_val == b.sd_val && a.sd_sid == b.sd_sid && a.rev_val == b.rev_val;
}

void harness(void) {
	sb_build();
	t_bidib_board *b1 = sbw.b1;
	t_bidib_train *t1 = sbw.t1;
	/* configuration validity (see header) */
	t_bidib_board_accessory_mapping *p1 = &g_array_index(b1->points_board, t_bidib_board_accessory_mapping, 0);
	t_bidib_board_accessory_mapping *s1 = &g_array_index(b1->signals_board, t_bidib_board_accessory_mapping, 0);
	t_bidib_dcc_accessory_mapping *pd = &g_array_index(b1->points_dcc, t_bidib_dcc_accessory_mapping, 0);
	t_bidib_dcc_accessory_mapping *sd = &g_array_index(b1->signals_dcc, t_bidib_dcc_accessory_mapping, 0);
	t_bidib_peripheral_mapping *l1 = &g_array_index(b1->peripherals, t_bidib_peripheral_mapping, 0);
	t_bidib_aspect *p1a[2] = {&g_array_index(p1->aspects, t_bidib_aspect, 0), &g_array_index(p1->aspects, t_bidib_aspect, 1)};
	t_bidib_aspect *s1a[2] = {&g_array_index(s1->aspects, t_bidib_aspect, 0), &g_array_index(s1->aspects, t_bidib_aspect, 1)};
	t_bidib_aspect *l1a[2] = {&g_array_index(l1->aspects, t_bidib_aspect, 0), &g_array_index(l1->aspects, t_bidib_aspect, 1)};
	VASSUME(p1->number <= 127 && s1->number <= 127 && p1a[0]->value <= 127 && p1a[1]->value <= 127 && s1a[0]->value <= 127 && s1a[1]->value <= 127);
	t_bidib_dcc_aspect_port_value *pdv[2], *sdv[2];
	for (int i = 0; i < 2; i++) {
		pdv[i] = &g_array_index(g_array_index(pd->aspects, t_bidib_dcc_aspect, i).port_values, t_bidib_dcc_aspect_port_value, 0);
		sdv[i] = &g_array_index(g_array_index(sd->aspects, t_bidib_dcc_aspect, i).port_values, t_bidib_dcc_aspect_port_value, 0);
		VASSUME(pdv[i]->port <= 31 && pdv[i]->value <= 1 && sdv[i]->port <= 31 && sdv[i]->value <= 1);
	}
	t_bidib_train_peripheral_mapping *fm[2] = {&g_array_index(t1->peripherals, t_bidib_train_peripheral_mapping, 0),
	                                           &g_array_index(t1->peripherals, t_bidib_train_peripheral_mapping, 1)};
	VASSUME((fm[0]->bit <= 4 || fm[0]->bit >= 8) && (fm[1]->bit <= 4 || fm[1]->bit >= 8));
	bool is_track_output = (b1->unique_id.class_id & (1 << 4)) != 0;
	bool is_booster = (b1->unique_id.class_id & (1 << 1)) != 0;
	t_bidib_node_address na = b1->node_addr;

	snap_t before = snap();
	char a1[3], a2[3], a3[3];
	sym_id(a1); sym_id(a2); sym_id(a3);
	/* shapes with concrete ids (the solver-chosen strings make the function-bit command too expensive) */
#ifdef CONC_A1
	a1[0] = CONC_A1[0]; a1[1] = CONC_A1[1]; a1[2] = 0;
#endif
#ifdef CONC_A2
	a2[0] = CONC_A2[0]; a2[1] = CONC_A2[1]; a2[2] = 0;
#endif
#ifdef CONC_A3
	a3[0] = CONC_A3[0]; a3[1] = CONC_A3[1]; a3[2] = 0;
#endif
	int ret = -1;
	bool expect_ok = false;
	int expect_msgs = 0;
	uint8_t d[12];
	snap_t want = before;

#if CMD == 0 || CMD == 1
	const char *bid = CMD == 0 ? "p1" : "s1", *did = CMD == 0 ? "pd" : "sd";
	const char *an[2] = {CMD == 0 ? "n" : "go", CMD == 0 ? "r" : "st"};
	ret = CMD == 0 ? bidib_switch_point(a1, a2) : bidib_set_signal(a1, a2);
	int ai = eq(a2, an[0]) ? 0 : eq(a2, an[1]) ? 1 : -1;
	if (eq(a1, bid) && b1->connected && ai >= 0) {
		expect_ok = true; expect_msgs = 1;
		d[0] = CMD == 0 ? p1->number : s1->number; d[1] = (CMD == 0 ? p1a : s1a)[ai]->value;
		if (cap_n == 1) VASSERT(msg_is(0, MSG_ACCESSORY_SET, na, d, 2), "ACCESSORY_SET(number, aspect value) to the owning board's current address");
	} else if (eq(a1, did) && b1->connected && ai >= 0) {
		t_bidib_dcc_accessory_mapping *m = CMD == 0 ? pd : sd;
		t_bidib_dcc_aspect_port_value *pv = (CMD == 0 ? pdv : sdv)[ai];
		expect_ok = true; expect_msgs = 1;
		d[0] = m->dcc_addr.addrl; d[1] = m->dcc_addr.addrh;
		d[2] = (uint8_t)((pv->port & 0x1F) | (pv->value << 5) | (m->extended_accessory << 7)); d[3] = 0;
		if (cap_n == 1) VASSERT(msg_is(0, MSG_CS_ACCESSORY, na, d, 4), "CS_ACCESSORY(dcc address, port|value<<5|ext<<7, time 0) to the owning board");
		if (CMD == 0) { want.pd_sid = ai + 1; want.pd_val = d[2] & 0x1F; want.pd_coil = (d[2] >> 5) & 1; want.pd_oct = !((d[2] >> 6) & 1); want.pd_tu = BIDIB_TIMEUNIT_MILLISECONDS; want.pd_time = 0; }
		else { want.sd_sid = ai + 1; want.sd_val = d[2] & 0x1F; }
	}
#elif CMD == 2
	ret = bidib_set_peripheral(a1, a2);
	int ai = eq(a2, "on") ? 0 : eq(a2, "of") ? 1 : -1;
	if (eq(a1, "l1") && b1->connected && ai >= 0) {
		expect_ok = true; expect_msgs = 1;
		d[0] = l1->port.port0; d[1] = l1->port.port1; d[2] = l1a[ai]->value;
		if (cap_n == 1) VASSERT(msg_is(0, MSG_LC_OUTPUT, na, d, 3), "LC_OUTPUT(port, aspect value) to the owning board");
	}
#elif CMD == 3 || CMD == 4 || CMD == 5
	int speed = ND_int("speed");
	VASSUME(speed >= -200 && speed <= 200);
	int eff = speed; bool in_range;
#if CMD == 3
	ret = bidib_set_train_speed(a1, speed, a2);
	in_range = speed >= -126 && speed <= 126;
#elif CMD == 4
	ret = bidib_set_calibrated_train_speed(a1, speed, a2);
	in_range = speed >= -9 && speed <= 9 && t1->calibration != NULL;
	if (in_range && speed != 0) {
		int idx = (speed < 0 ? -speed : speed) - 1, c = 0;
		for (int i = 0; i < 9; i++) if (i == idx) c = g_array_index(t1->calibration, int, i);
		eff = speed < 0 ? -c : c;
	}
#else
	ret = bidib_emergency_stop_train(a1, a2);
	in_range = true;
#endif
	if (eq(a1, "t1") && eq(a2, "b1") && b1->connected && is_track_output && in_range) {
		expect_ok = true; expect_msgs = 1;
		uint8_t sp;
		if (CMD == 5) sp = 0x81;
		else {
			uint8_t mag = (uint8_t)(eff < 0 ? -eff : eff);
			bool fwd = eff > 0 ? true : eff < 0 ? false : before.fwd;      /* direction kept at speed 0 */
			sp = mag == 0 ? (fwd ? 0x80 : 0x00) : (uint8_t)((fwd ? 0x80 : 0x00) | (mag + 1));
		}
		d[0] = t1->dcc_addr.addrl; d[1] = t1->dcc_addr.addrh; d[2] = fmt_of(t1->dcc_speed_steps); d[3] = 1; d[4] = sp;
		d[5] = d[6] = d[7] = d[8] = 0;
		if (cap_n == 1) VASSERT(msg_is(0, MSG_CS_DRIVE, na, d, 9), "CS_DRIVE(dcc address, format, speed active, DCC speed byte) to the track output");
		/* optimistic state: speed step -126..126 <-> DCC byte */
		int mag = sp & 0x7F;
		want.speed = mag <= 1 ? 0 : ((sp & 0x80) ? mag - 1 : -(mag - 1));
		want.fwd = (sp & 0x80) != 0;
		want.ack = BIDIB_DCC_ACK_PENDING;
	}
#elif CMD == 6
	uint8_t st = ND_u8("state");
	ret = bidib_set_train_peripheral(a1, a3, st, a2);
	int fi = eq(a3, "hd") ? 0 : eq(a3, "cb") ? 1 : -1;
	if (eq(a1, "t1") && eq(a2, "b1") && b1->connected && is_track_output && fi >= 0 && st <= 1) {
		expect_ok = true; expect_msgs = 1;
		uint8_t bit = fm[fi]->bit, other = fm[1 - fi]->bit;
		int grp = bit < 5 ? 1 : bit < 12 ? 2 : bit < 16 ? 3 : bit < 24 ? 4 : 5;       /* DCC function groups */
		int ogrp = other < 5 ? 1 : other < 12 ? 2 : other < 16 ? 3 : other < 24 ? 4 : 5;
		uint8_t fb[4] = {0, 0, 0, 0};
		if (ogrp == grp) fb[other / 8] |= (uint8_t)(before.f[1 - fi] << (other % 8));   /* others of the group preserved */
		fb[bit / 8] |= (uint8_t)(st << (bit % 8));
		d[0] = t1->dcc_addr.addrl; d[1] = t1->dcc_addr.addrh; d[2] = fmt_of(t1->dcc_speed_steps); d[3] = (uint8_t)(1 << grp); d[4] = 0;
		d[5] = fb[0]; d[6] = fb[1]; d[7] = fb[2]; d[8] = fb[3];
		if (cap_n == 1) VASSERT(msg_is(0, MSG_CS_DRIVE, na, d, 9), "CS_DRIVE with the function group of the bit active, the other functions of the group preserved");
		want.f[fi] = st; want.ack = BIDIB_DCC_ACK_PENDING;
	}
#elif CMD == 7
	bool on = ND_bool("on");
	ret = bidib_set_booster_power_state(a1, on);
	if (eq(a1, "b1") && b1->connected && is_booster) {
		expect_ok = true; expect_msgs = 1;
		d[0] = 1;
		if (cap_n == 1) VASSERT(msg_is(0, on ? MSG_BOOST_ON : MSG_BOOST_OFF, na, d, 1), "BOOST_ON/OFF (unicast) to the booster");
	}
#elif CMD == 8
	uint8_t cs = ND_u8("cs_state");
	VASSUME(cs <= 4 || cs == 8 || cs == 9 || cs == 0x0D || cs == 0xFF);    /* the values of t_bidib_cs_state */
	ret = bidib_set_track_output_state(a1, (t_bidib_cs_state)cs);
	if (eq(a1, "b1") && b1->connected && is_track_output) {
		expect_ok = true; expect_msgs = 1;
		d[0] = cs;
		if (cap_n == 1) VASSERT(msg_is(0, MSG_CS_SET_STATE, na, d, 1), "CS_SET_STATE(state) to the track output");
	}
#elif CMD == 9
	ret = bidib_request_reverser_state(a1, a2);
	if (eq(a1, "r1") && eq(a2, "b1") && b1->connected) {
		expect_ok = true; expect_msgs = 1;
		d[0] = 1; d[1] = '4';
		if (cap_n == 1) VASSERT(msg_is(0, MSG_VENDOR_GET, na, d, 2), "VENDOR_GET(cv name) to the board");
		want.rev_val = BIDIB_REV_EXEC_STATE_UNKNOWN;
	}
#else
	uint8_t cs = ND_u8("cs_state");
	VASSUME(cs <= 4 || cs == 8 || cs == 9 || cs == 0x0D || cs == 0xFF);
	bidib_set_track_output_state_all((t_bidib_cs_state)cs);
	ret = (b1->connected && is_track_output) ? 0 : 1;
	if (b1->connected && is_track_output) {
		expect_ok = true; expect_msgs = 1;
		d[0] = cs;
		if (cap_n == 1) VASSERT(msg_is(0, MSG_CS_SET_STATE, na, d, 1), "CS_SET_STATE to every connected track output");
	}
#endif
	snap_t after = snap();
	VASSERT(ret == (expect_ok ? 0 : 1), "returns 0 iff configured, connected equipment and a defined aspect / in-range value are named");
	VASSERT(cap_n == expect_msgs, "exactly the prescribed message(s) are submitted; nothing on return 1");
	VASSERT(snap_eq(after, want), "tracked state: optimistic update on success, unchanged on return 1");
	VASSERT(verif_all_free(), "all locks released");
#ifdef WITNESS
	VASSUME(expect_ok);
#endif
	VWITNESS();
}
