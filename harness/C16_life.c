/* C16: lifecycle - shutdown sequence, threads joined exactly once, restartable, sessions alike.
 *
 * unit (real code): src/highlevel/bidib_highlevel_util.c (included): bidib_start_pointer, bidib_stop,
 *                   bidib_init_threads / rwlocks / mutexes
 * stubs:            everything the two functions call is a RECORDING stub appending to one event log (their own
 *                   behaviour is verified elsewhere: bidib_state_free C13/C17, node table / queues C03/C06/C12,
 *                   bidib_state_reset_train_params RESET shape below, bidib_set_track_output_state_all C09);
 *                   pthread_create/join = handle monitor of env/pthread_model.c (threads are not run)
 * sessions:         SESSIONS (2 or 3) times  start(mode, flush interval, config ok?, interface answers?)  then
 *                   solver-chosen extra stop / start-while-running, then stop
 * oracle:           per stop of a running library the event log is exactly  SOFTSTOP-all, flush, zero-speed for all
 *                   trains, flush, OFF-all, flush, [running=false], join of every handle created in THIS session once,
 *                   port close, node table free, three queue frees, state free; stop while stopped and start while
 *                   running log nothing; a failed start has stopped the library; after every stop the process-lifetime
 *                   globals the next session starts from equal their initial values
 * RESET shape:      real bidib_state_reset_train_params: one CS_DRIVE(active 0, speed 0, functions 0) per train per
 *                   connected track output (see C16_reset harness part, MODE 1)
 */
#include "verif.h"
#ifndef MODE
#define MODE 0
#endif
#if MODE == 0
#include "src/highlevel/bidib_highlevel_util.c"

#ifndef SESSIONS
#define SESSIONS 2
#endif

enum { E_TO_SOFTSTOP = 1, E_TO_OFF, E_TO_OTHER, E_FLUSH, E_RESET_TRAINS, E_PORT_CLOSE, E_NODE_FREE, E_UQ_FREE, E_UEQ_FREE,
       E_UIQ_FREE, E_STATE_FREE, E_STATE_INIT, E_SYS_RESET, E_COMM, E_SET_READ, E_SET_WRITE, E_NODE_INIT };
#define LOG_MAX (24 * SESSIONS)
static int ev[LOG_MAX], ev_n;
static bool ev_running[LOG_MAX];
static void rec(int e) { VASSUME(ev_n < LOG_MAX); ev_running[ev_n] = bidib_running; ev[ev_n++] = e; }

volatile bool bidib_seq_num_enabled = true;
pthread_mutex_t bidib_node_state_table_mutex, bidib_send_buffer_mutex, bidib_uplink_queue_mutex,
	bidib_uplink_error_queue_mutex, bidib_uplink_intern_queue_mutex, bidib_action_id_mutex;
static bool cfg_ok, comm_ok;
void bidib_set_track_output_state_all(t_bidib_cs_state s) { rec(s == BIDIB_CS_SOFTSTOP ? E_TO_SOFTSTOP : s == BIDIB_CS_OFF ? E_TO_OFF : E_TO_OTHER); }
void bidib_flush(void) { rec(E_FLUSH); }
void bidib_state_reset_train_params(void) { rec(E_RESET_TRAINS); }
void bidib_serial_port_close(void) { rec(E_PORT_CLOSE); }
void bidib_node_state_table_free(void) { rec(E_NODE_FREE); }
void bidib_uplink_queue_free(void) { rec(E_UQ_FREE); }
void bidib_uplink_error_queue_free(void) { rec(E_UEQ_FREE); }
void bidib_uplink_intern_queue_free(void) { rec(E_UIQ_FREE); }
void bidib_state_free(void) { rec(E_STATE_FREE); }
void bidib_node_state_table_init(void) { rec(E_NODE_INIT); }
int bidib_state_init(const char *d) { (void)d; rec(E_STATE_INIT); return cfg_ok ? 0 : 1; }
void bidib_set_read_src(uint8_t (*r)(int *)) { (void)r; rec(E_SET_READ); }
void bidib_set_write_n_dest(void (*w)(uint8_t *, int32_t)) { (void)w; rec(E_SET_WRITE); }
/* the real probe switches numbering off and back on only when the interface answered, and stops discarding */
bool bidib_communication_works(void) { rec(E_COMM); bidib_seq_num_enabled = false; bidib_discard_rx = false;
	if (comm_ok) bidib_seq_num_enabled = true; else bidib_discard_rx = true; return comm_ok; }
void bidib_send_sys_reset(unsigned int a) { (void)a; rec(E_SYS_RESET); }
void *bidib_auto_receive(void *p) { (void)p; return NULL; }
void *bidib_auto_flush(void *p) { (void)p; return NULL; }
int bidib_serial_port_init(const char *d) { (void)d; return 1; }
int bidib_detect_baudrate(void) { return 1; }
uint8_t bidib_serial_port_read(int *ok) { *ok = 0; return 0; }
void bidib_serial_port_write_n(uint8_t *b, int32_t n) { (void)b; (void)n; }

static uint8_t rd(int *ok) { *ok = 0; return 0; }
static void wr(uint8_t *b, int32_t n) { (void)b; (void)n; }

/* checks the log segment [from, ev_n) against the shutdown sequence; returns true iff it matches */
static bool is_shutdown(int from, int joins_before, int expect_joins) {
	static const int want[] = {E_TO_SOFTSTOP, E_FLUSH, E_RESET_TRAINS, E_FLUSH, E_TO_OFF, E_FLUSH,
	                           E_PORT_CLOSE, E_NODE_FREE, E_UQ_FREE, E_UEQ_FREE, E_UIQ_FREE, E_STATE_FREE};
	if (ev_n - from != 12) return false;
	for (int i = 0; i < 12; i++) {
		if (ev[from + i] != want[i]) return false;
		if (ev_running[from + i] != (i < 6)) return false;     /* traffic while running, release after running=false */
	}
	return verif_threads_joined - joins_before == expect_joins;
}

void harness(void) {
	for (int s = 0; s < SESSIONS; s++) {
		bool debug = ND_bool("debug_mode");
		unsigned interval = ND_u8("flush_interval");
		cfg_ok = ND_bool("config_ok"); comm_ok = ND_bool("interface_answers");
		bidib_lowlevel_debug_mode = debug;   /* = bidib_set_lowlevel_debug_mode (receive.c) */
		int created_before = verif_threads_created, joined_before = verif_threads_joined;
		int from = ev_n;
		int r = bidib_start_pointer(rd, wr, "cfg", interval);
		bool ok = cfg_ok && (debug || comm_ok);
		VASSERT(r == (ok ? 0 : 1), "start returns 0 iff configuration and (in normal mode) interface are fine");
		int created = verif_threads_created - created_before;
		VASSERT(created == (interval > 0 ? 3 : 2), "receiver + heartbeat (+ auto-flush iff an interval is given) are started once");
		if (!ok) {
			VASSERT(!bidib_running, "a failed start has stopped the library");
			VASSERT(verif_threads_joined - joined_before == created, "a failed start joined the threads it created, each once");
		} else {
			VASSERT(bidib_running, "running after a successful start");
			if (ND_bool("start_while_running")) {
				int n0 = ev_n, c0 = verif_threads_created;
				int r2 = bidib_start_pointer(rd, wr, "cfg", ND_u8("interval2"));
				VASSERT(r2 == 0 && ev_n == n0 && verif_threads_created == c0, "start while running does nothing");
			}
			from = ev_n;
			bidib_stop();
			VASSERT(is_shutdown(from, joined_before, created), "stop: soft-stop, flush, zero speed, flush, track off, flush, then threads joined once each and everything released, in this order");
		}
		VASSERT(!bidib_running, "stopped");
		{ int n0 = ev_n, j0 = verif_threads_joined;
		  bidib_stop();
		  VASSERT(ev_n == n0 && verif_threads_joined == j0, "stop while stopped does nothing"); }
		VASSERT(verif_thread_errors == 0, "no join of a stale or already joined handle");
		VASSERT(verif_all_free(), "all locks free");
		/* the next session must start from the same process-lifetime globals as the first one */
		VASSERT(bidib_seq_num_enabled == true, "sequence numbering enabled again for the next session");
		VASSERT(bidib_discard_rx == true, "receiver discards until the next session's connection is established");
	}
	VWITNESS();
}
#elif MODE == 2
/* ---- MODE 2: release of the transmission-layer state with activity pending ("deferred messages pending, queues
 * non-empty"): real bidib_node_state_table_free and the three uplink queue frees on a node table with outstanding
 * requests, held messages and stall waiters and on non-empty uplink queues: everything is released exactly once
 * (CBMC double-free checks + --memory-leak-check) ---- */
#include "verif_glib.h"
#include "src/transmission/bidib_transmission_node_states.c"
#include "src/transmission/bidib_transmission_receive.c"
volatile bool bidib_running, bidib_discard_rx, bidib_lowlevel_debug_mode, bidib_seq_num_enabled;
pthread_rwlock_t bidib_trains_rwlock, bidib_boards_rwlock;
pthread_mutex_t trackstate_accessories_mutex, trackstate_peripherals_mutex, trackstate_segments_mutex,
	trackstate_reversers_mutex, trackstate_trains_mutex, trackstate_boosters_mutex,
	trackstate_track_outputs_mutex;
void bidib_add_to_buffer(const uint8_t *const m) { (void)m; }
void bidib_flush(void) { }
t_bidib_board *bidib_state_get_board_ref_by_nodeaddr(t_bidib_node_address n) { (void)n; return NULL; }
void harness(void) {
	bidib_node_state_table_init();
	bidib_set_read_src(NULL);
	uint8_t a1[4] = {1, 0, 0, 0}, a2[4] = {1, 2, 0, 0};
	verif_now = 5;
	/* node 1: budget exhausted by NREQ requests with answers pending, then NHELD more are held back */
	uint8_t t = ND_u8("type"); VASSUME(t < 0x80 && bidib_response_info[t][1] >= 24);
	for (int i = 0; i < 2 + NHELD; i++) { uint8_t msg[4] = {3, 1, (uint8_t)i, t}; (void)bidib_node_try_send(a1, t, msg, 1); }
	/* node 1.2 waits for stalled node 1 */
	bidib_node_update_stall(a1, 1);
	{ uint8_t msg[5] = {4, 1, 2, 9, MSG_SYS_GET_MAGIC}; (void)bidib_node_try_send(a2, MSG_SYS_GET_MAGIC, msg, 2); }
	/* unread uplink traffic in all three queues */
	bidib_lowlevel_debug_mode = false;
	uint8_t addr[4] = {0, 0, 0, 0};
	{ uint8_t *m = malloc(5); m[0] = 4; m[1] = 0; m[2] = 1; m[3] = MSG_SYS_PONG; m[4] = 7; bidib_handle_received_message(m, MSG_SYS_PONG, addr, 1, 0); }
	{ uint8_t *m = malloc(5); m[0] = 4; m[1] = 0; m[2] = 2; m[3] = MSG_NODE_NA; m[4] = 7; bidib_handle_received_message(m, MSG_NODE_NA, addr, 2, 0); }
	{ uint8_t *m = malloc(5); m[0] = 4; m[1] = 0; m[2] = 3; m[3] = MSG_NODETAB_COUNT; m[4] = 1; bidib_handle_received_message(m, MSG_NODETAB_COUNT, addr, 3, 0); }
	t_bidib_node_state *s1 = g_hash_table_lookup(node_state_table, a1);
	VASSERT(g_queue_get_length(s1->message_queue) >= NHELD && g_queue_get_length(s1->response_queue) >= 1, "pre-state: outstanding and held messages present");
	bidib_running = false;
	bidib_node_state_table_free();
	bidib_uplink_queue_free(); bidib_uplink_error_queue_free(); bidib_uplink_intern_queue_free();
	VASSERT(verif_all_free(), "locks released");
	VWITNESS();
}
#else
/* ---- MODE 1: the real zero-speed step of the shutdown ---- */
#define SB_B2 1
#define SB_TRAINS 2
#define SB_POINTS_BOARD 0
#define SB_POINTS_DCC 0
#define SB_SIGNALS 0
#define SB_PERIPHERALS 0
#define SB_REVERSERS 0
#define SB_SEGMENTS 1
#define SB_SEG_ADDRS 0
#define SB_BOOSTER 0
#define SB_TRACK_OUTPUT 0
#define SB_TRAIN_PERIPHERALS 1
#include "state_builder.h"
#include "include/bidib.h"
volatile bool bidib_running;
pthread_rwlock_t bidib_trains_rwlock, bidib_boards_rwlock;
pthread_mutex_t trackstate_accessories_mutex, trackstate_peripherals_mutex, trackstate_segments_mutex,
	trackstate_reversers_mutex, trackstate_trains_mutex, trackstate_boosters_mutex,
	trackstate_track_outputs_mutex;
void bidib_state_reset_train_params(void);
#define CAPN 5
static int cap_n; static t_bidib_node_address cap_node[CAPN]; static t_bidib_cs_drive_mod cap_p[CAPN];
void bidib_send_cs_drive_intern(t_bidib_node_address n, t_bidib_cs_drive_mod p, unsigned int aid, bool lock) {
	(void)aid; VASSUME(cap_n < CAPN);
	VASSERT(!lock && verif_held_w(L_TRAINS_RW), "intern sender called with the trains lock held by the caller");
	cap_node[cap_n] = n; cap_p[cap_n] = p; cap_n++;
}
void harness(void) {
	sb_build();
	bidib_state_reset_train_params();
	t_bidib_board *bd[2] = {sbw.b1, sbw.b2};
	t_bidib_train *tr[2] = {sbw.t1, sbw.t2};
	int k = 0;
	for (int t = 0; t < 2; t++) for (int b = 0; b < 2; b++) {
		if (!(bd[b]->connected && (bd[b]->unique_id.class_id & 0x10))) continue;
		VASSERT(k < cap_n, "one zero-speed command per train per connected track output");
		if (k < cap_n) {
			t_bidib_cs_drive_mod p = cap_p[k];
			VASSERT(cap_node[k].top == bd[b]->node_addr.top && cap_node[k].sub == bd[b]->node_addr.sub && cap_node[k].subsub == bd[b]->node_addr.subsub, "to the track output's address");
			VASSERT(p.dcc_address.addrl == tr[t]->dcc_addr.addrl && p.dcc_address.addrh == tr[t]->dcc_addr.addrh, "for the train's decoder");
			VASSERT(p.dcc_format == (tr[t]->dcc_speed_steps == 28 ? 2 : tr[t]->dcc_speed_steps == 126 ? 3 : 0), "in the train's speed-step format");
			VASSERT(p.speed == 0 && p.function1 == 0 && p.function2 == 0 && p.function3 == 0 && p.function4 == 0, "speed 0, all functions off");
		}
		k++;
	}
	VASSERT(cap_n == k, "nothing else is commanded (no disconnected board, no non-track-output)");
	VASSERT(verif_all_free(), "locks released");
	VWITNESS();
}
#endif
