/* C08: train presence / position / orientation always agree with the segment address lists.
 *
 * unit (real code): bidib_state_bm_occ, bidib_state_bm_multiple, bidib_state_bm_address (state_setter.c),
 *                   bidib_state_update_train_available (state.c), bidib_get_train_position(_intern),
 *                   bidib_get_train_on_track (highlevel_getter.c), lookups of state_getter.c
 * world:            boards b1 (segments g1, g2) and b2 (segment g3), trains t1 and t2, every segment listing 0..2
 *                   arbitrary decoder addresses, arbitrary (even inconsistent) derived values before the step
 * STEP:             0 occupied/free report, 1 multiple report (SIZE bits), 2 address report (COUNT entries),
 *                   all with arbitrary node address / detector number / payload
 * oracle:           reference lists per segment, then for every train: on-track <=> some segment lists its address,
 *                   position == exactly those segments, orientation == the one reported with that address; the
 *                   lists and the derived values are written inside ONE critical section (segments + trains mutex
 *                   acquired once and held until update_train_available has run)
 */
#define SB_B2 1
#ifndef SB_TRAINS
#define SB_TRAINS 1
#endif
#ifndef SB_SEG_ADDRS
#define SB_SEG_ADDRS 1
#endif
#define SB_POINTS_BOARD 0
#define SB_POINTS_DCC 0
#define SB_SIGNALS 0
#define SB_PERIPHERALS 0
#define SB_REVERSERS 0
#define SB_BOOSTER 0
#define SB_TRACK_OUTPUT 0
#define SB_TRAIN_PERIPHERALS 0
#include "verif.h"
#include "state_builder.h"
#include "include/bidib.h"
#include "src/state/bidib_state_setter_intern.h"
#include "src/state/bidib_state_getter_intern.h"
#include "src/highlevel/bidib_highlevel_intern.h"

#ifndef STEP
#define STEP 2
#endif
#ifndef SIZE
#define SIZE 8
#endif
#ifndef COUNT
#define COUNT 2
#endif
#define NSEG 3
#define MAXL 3

volatile bool bidib_running;
pthread_rwlock_t bidib_trains_rwlock, bidib_boards_rwlock;
pthread_mutex_t trackstate_accessories_mutex, trackstate_peripherals_mutex, trackstate_segments_mutex,
	trackstate_reversers_mutex, trackstate_trains_mutex, trackstate_boosters_mutex,
	trackstate_track_outputs_mutex;

/* STEP 0..2: bidib_get_train_position_intern / bidib_free_train_position_query are replaced (goto-instrument
 * --replace-calls) by this malloc-free contract stub (length + orientation computed from the real segment lists);
 * the real getter is verified as its own unit in STEP 3 (a symbolic-size malloc inside every step made the
 * composed query run out of solver memory). */
t_bidib_train_position_query verif_position_stub(const char *train) {
	t_bidib_train_position_query q = {0, NULL, true};
	const t_bidib_train *tr = bidib_state_get_train_ref(train);
	if (tr == NULL) return q;
	for (guint i = 0; i < 3; i++) {
		if (i >= bidib_track_state.segments->len) continue;
		const t_bidib_segment_state_intern *g = &g_array_index(bidib_track_state.segments, t_bidib_segment_state_intern, i);
		for (guint j = 0; j < 3; j++) {
			if (j >= g->dcc_addresses->len) continue;
			t_bidib_dcc_address a = g_array_index(g->dcc_addresses, t_bidib_dcc_address, j);
			if (a.addrl == tr->dcc_addr.addrl && a.addrh == tr->dcc_addr.addrh) { q.length++; q.orientation_is_left = (a.type == 0); }
		}
	}
	return q;
}
void verif_position_free_stub(t_bidib_train_position_query q) { (void)q; }

typedef struct { unsigned n; uint8_t l[MAXL], h[MAXL], t[MAXL]; bool occ; } rseg;
static const char *SEG_ID[NSEG] = {"g1", "g2", "g3"};

void harness(void) {
	sb_build();
	t_bidib_board *bd[2] = {sbw.b1, sbw.b2};
	rseg r[NSEG];
	uint8_t seg_addr[NSEG]; int seg_board[NSEG] = {0, 0, 1};
	seg_addr[0] = g_array_index(sbw.b1->segments, t_bidib_segment_mapping, 0).addr;
	seg_addr[1] = g_array_index(sbw.b1->segments, t_bidib_segment_mapping, 1).addr;
	seg_addr[2] = g_array_index(sbw.b2->segments, t_bidib_segment_mapping, 0).addr;
	for (int i = 0; i < NSEG; i++) {
		t_bidib_segment_state_intern *g = &g_array_index(bidib_track_state.segments, t_bidib_segment_state_intern, i);
		r[i].n = g->dcc_addresses->len; r[i].occ = g->occupied;
		for (int j = 0; j < MAXL; j++) {
			r[i].l[j] = r[i].h[j] = r[i].t[j] = 0;
			if ((unsigned)j < r[i].n) { t_bidib_dcc_address *a = &g_array_index(g->dcc_addresses, t_bidib_dcc_address, j); r[i].l[j] = a->addrl; r[i].h[j] = a->addrh; r[i].t[j] = a->type; }
		}
	}
	/* INV_train on the pre-state (inductive hypothesis; established by every report that names a known segment
	 * and by bidib_state_reset): on_track <=> listed, orientation reported with the address */
	for (int t = 0; t < SB_TRAINS; t++) {
		t_bidib_train *tr = &g_array_index(bidib_trains, t_bidib_train, t);
		t_bidib_train_state_intern *ts = &g_array_index(bidib_track_state.trains, t_bidib_train_state_intern, t);
		bool listed = false, left = false, right = false;
		for (int i = 0; i < NSEG; i++) for (int j = 0; j < MAXL; j++) {
			if ((unsigned)j < r[i].n && r[i].l[j] == tr->dcc_addr.addrl && r[i].h[j] == tr->dcc_addr.addrh) { listed = true; if (r[i].t[j] == 0) left = true; else right = true; }
		}
		VASSUME(ts->on_track == listed);
		if (listed) VASSUME(ts->orientation == BIDIB_TRAIN_ORIENTATION_LEFT ? left : right);
	}
	t_bidib_node_address node = {ND_u8("node_top"), ND_u8("node_sub"), ND_u8("node_subsub")};
	int from = -1;
	for (int b = 0; b < 2; b++) {
		if (from < 0 && bd[b]->connected && bd[b]->node_addr.top == node.top && bd[b]->node_addr.sub == node.sub && bd[b]->node_addr.subsub == node.subsub) from = b;
	}
	uint8_t number = ND_u8("number");
	verif_locks_reset();

#if STEP == 3
	/* unit: the position getter on arbitrary lists */
#elif STEP == 0
	bool occ = ND_bool("occ");
#ifndef SKIPCALL
	bidib_state_bm_occ(node, number, occ);
#endif
	for (int i = 0; i < NSEG; i++) {
		if (seg_board[i] == from && seg_addr[i] == number) { r[i].occ = occ; if (!occ) r[i].n = 0; }
	}
#elif STEP == 1
	uint8_t data[SIZE / 8];
	for (int k = 0; k < SIZE / 8; k++) data[k] = ND_u8("bitmap");
	bidib_state_bm_multiple(node, number, SIZE, data);
	for (int k = 0; k < SIZE; k++) {
		if (number + k >= 255) continue;
		for (int i = 0; i < NSEG; i++) {
			if (seg_board[i] == from && seg_addr[i] == (uint8_t)(number + k)) {
				bool bit = (data[k / 8] >> (k % 8)) & 1;
				r[i].occ = bit; if (!bit) r[i].n = 0;
			}
		}
	}
#else
	uint8_t *ad = malloc(2 * COUNT + 2);       /* the dispatcher passes a pointer into the message: >= 2 bytes readable */
	for (int k = 0; k < 2 * COUNT + 2; k++) ad[k] = ND_u8("addr_byte");
#if COUNT >= 2
	VASSUME(ad[0] != ad[2] || (ad[1] & 0x3F) != (ad[3] & 0x3F));     /* a report lists a decoder once */
#endif
#if COUNT >= 3
	VASSUME((ad[0] != ad[4] || (ad[1] & 0x3F) != (ad[5] & 0x3F)) && (ad[2] != ad[4] || (ad[3] & 0x3F) != (ad[5] & 0x3F)));
#endif
	bidib_state_bm_address(node, number, COUNT, ad);
	for (int i = 0; i < NSEG; i++) {
		if (seg_board[i] == from && seg_addr[i] == number) {
			r[i].n = 0;
			bool free_form = COUNT == 1 && ad[0] == 0 && ad[1] == 0;       /* "no decoder" form */
			if (!free_form) {
				for (int k = 0; k < COUNT; k++) {
					if ((ad[2 * k + 1] & 0x40) == 0) {                     /* locomotive entries only */
						r[i].l[r[i].n] = ad[2 * k]; r[i].h[r[i].n] = ad[2 * k + 1] & 0x3F; r[i].t[r[i].n] = (ad[2 * k + 1] >> 6) & 3; r[i].n++;
					}
				}
			}
		}
	}
	free(ad);
#endif
	VASSERT(verif_all_free(), "all locks released");
#if STEP != 3
	VASSERT(verif_acq_count[L_SEGMENTS] == 1 && verif_acq_count[L_TS_TRAINS] == 1 && verif_acq_count[L_TRAINS_RW] == 1,
	        "segment lists and derived train values are updated inside one critical section (never lag)");
#endif

	/* ---- segments == reference ---- */
	for (int i = 0; i < NSEG; i++) {
		t_bidib_segment_state_intern *g = &g_array_index(bidib_track_state.segments, t_bidib_segment_state_intern, i);
		VASSERT(g->occupied == r[i].occ, "segment occupancy as reported");
		VASSERT(g->dcc_addresses->len == r[i].n, "segment lists exactly the reported decoders (none after a free report)");
		for (int j = 0; j < MAXL; j++) {
			if ((unsigned)j < r[i].n && (unsigned)j < g->dcc_addresses->len) {
				t_bidib_dcc_address *a = &g_array_index(g->dcc_addresses, t_bidib_dcc_address, j);
				VASSERT(a->addrl == r[i].l[j] && a->addrh == r[i].h[j] && a->type == r[i].t[j], "listed decoder address and orientation bits");
			}
		}
	}
	/* ---- trains == derived from the reference lists ---- */
	for (int t = 0; t < SB_TRAINS; t++) {
		t_bidib_train *tr = &g_array_index(bidib_trains, t_bidib_train, t);
		t_bidib_train_state_intern *ts = &g_array_index(bidib_track_state.trains, t_bidib_train_state_intern, t);
		bool in[NSEG]; int cnt = 0; bool some_left = false, some_right = false;
		for (int i = 0; i < NSEG; i++) {
			in[i] = false;
			for (int j = 0; j < MAXL; j++) {
				if ((unsigned)j < r[i].n && r[i].l[j] == tr->dcc_addr.addrl && r[i].h[j] == tr->dcc_addr.addrh) {
					in[i] = true; if (r[i].t[j] == 0) some_left = true; else some_right = true;
				}
			}
			if (in[i]) cnt++;
		}
#if STEP != 3
		VASSERT(ts->on_track == (cnt > 0), "train is on track exactly when some segment lists its address");
		if (cnt > 0) VASSERT(ts->orientation == BIDIB_TRAIN_ORIENTATION_LEFT ? some_left : some_right, "orientation is one reported together with the address");
		VASSERT(bidib_get_train_on_track(t == 0 ? "t1" : "t2") == (cnt > 0), "public getter agrees");
		continue;
#endif
		(void)ts;
		t_bidib_train_position_query pos = bidib_get_train_position(t == 0 ? "t1" : "t2");
		VASSERT(pos.length == (size_t)cnt, "position has exactly as many entries as listing segments");
		bool seen[NSEG] = {false, false, false};
		for (size_t k = 0; k < NSEG; k++) {
			if (k >= pos.length) continue;
			int which = -1;
			for (int i = 0; i < NSEG; i++) if (pos.segments[k][0] == SEG_ID[i][0] && pos.segments[k][1] == SEG_ID[i][1] && pos.segments[k][2] == 0) which = i;
			VASSERT(which >= 0 && in[which >= 0 ? which : 0] && !seen[which >= 0 ? which : 0], "position = exactly the set of listing segments");
			if (which >= 0) seen[which] = true;
		}
		if (cnt > 0) VASSERT(pos.orientation_is_left ? some_left : some_right, "orientation is one reported together with the address");
		bidib_free_train_position_query(pos);
	}
	VWITNESS();
}
