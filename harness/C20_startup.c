/* C20: startup applies the configuration - features to the right boards before the system is enabled, then track
 * outputs on, then every initial value once.
 *
 * MODE 0 (order)    real bidib_send_sys_reset (lowlevel_system.c) with its callees as recording stubs: RESET is the
 *                   first message, then node table reset / enumeration, feature settings, SYS_ENABLE, train reset,
 *                   track outputs GO, occupancy query, initial values - in this order, each once.
 * MODE 1 (features) real bidib_state_set_board_features against a simulated bus that answers every FEATURE_SET with a
 *                   MSG_FEATURE carrying the requested or a different value: exactly the configured (number, value)
 *                   pairs go to the address of each CONNECTED board they are configured for, none elsewhere, and the
 *                   function returns (one answer consumed per setting).
 * MODE 2 (initial)  real bidib_state_set_initial_values with the real high-level commands and message construction:
 *                   one command per configured initial point / signal / peripheral aspect, one function command per
 *                   initial train function per track output, equal to what the high-level command of C09 prescribes;
 *                   nothing for a disconnected board.
 */
#include "verif.h"
#ifndef MODE
#define MODE 0
#endif
#if MODE == 0
#include "src/lowlevel/bidib_lowlevel_system.c"
enum { E_MSG_RESET = 1, E_MSG_ENABLE, E_MSG_PKTCAP, E_MSG_OTHER, E_FLUSH, E_NODE_RESET, E_Q1, E_Q2, E_Q3, E_STATE_RESET, E_ALLOC, E_FEATURES,
       E_TRAIN_RESET, E_TO_GO, E_TO_OTHER, E_OCC, E_INITIAL };
#define LOG_MAX 24
static int ev[LOG_MAX], ev_n;
static void rec(int e) { VASSUME(ev_n < LOG_MAX); ev[ev_n++] = e; }
pthread_rwlock_t bidib_boards_rwlock;
void bidib_buffer_message_without_data(const uint8_t *const a, uint8_t t, unsigned int aid) {
	(void)aid;
	bool root = a[0] == 0;
	rec(t == MSG_SYS_RESET && root ? E_MSG_RESET : t == MSG_SYS_ENABLE && root ? E_MSG_ENABLE : t == MSG_GET_PKT_CAPACITY && root ? E_MSG_PKTCAP : E_MSG_OTHER);
}
void bidib_buffer_message_with_data(const uint8_t *const a, uint8_t t, uint8_t n, const uint8_t *const d, unsigned int aid) { (void)a; (void)t; (void)n; (void)d; (void)aid; rec(E_MSG_OTHER); }
void bidib_flush(void) { rec(E_FLUSH); }
void bidib_node_state_table_reset(bool l) { VASSERT(l, "node table reset takes its own lock"); rec(E_NODE_RESET); }
void bidib_uplink_queue_reset(bool l) { (void)l; rec(E_Q1); }
void bidib_uplink_error_queue_reset(bool l) { (void)l; rec(E_Q2); }
void bidib_uplink_intern_queue_reset(bool l) { (void)l; rec(E_Q3); }
void bidib_state_reset(void) { rec(E_STATE_RESET); }
void bidib_state_init_allocation_table(void) { rec(E_ALLOC); }
void bidib_state_set_board_features(void) { rec(E_FEATURES); }
void bidib_state_reset_train_params(void) { rec(E_TRAIN_RESET); }
void bidib_set_track_output_state_all(t_bidib_cs_state s) { rec(s == BIDIB_CS_GO ? E_TO_GO : E_TO_OTHER); }
void bidib_state_query_occupancy(void) { VASSERT(verif_held(L_BOARDS_RW), "occupancy query runs with the boards lock held"); rec(E_OCC); }
void bidib_state_set_initial_values(void) { rec(E_INITIAL); }
void harness(void) {
	bidib_send_sys_reset(ND_u8("aid"));
	static const int want[] = {E_MSG_RESET, E_FLUSH, E_NODE_RESET, E_Q1, E_Q2, E_Q3, E_STATE_RESET, E_ALLOC, E_MSG_PKTCAP, E_FEATURES, E_MSG_ENABLE,
	                           E_TRAIN_RESET, E_TO_GO, E_FLUSH, E_OCC, E_FLUSH, E_INITIAL};
	VASSERT(ev_n == 17, "startup dialogue has exactly its 17 steps");
	for (int i = 0; i < 17; i++) if (i < ev_n) VASSERT(ev[i] == want[i], "RESET first; node table; features BEFORE SYS_ENABLE; then train reset, track outputs GO, occupancy query, initial values last");
	VASSERT(verif_all_free(), "locks released");
	VWITNESS();
}
#else
#define SB_B2 1
#define SB_SEG_ADDRS 0
#define SB_SEGMENTS 1
#include "ref_bidib.h"
#include "state_builder.h"
#include "include/bidib.h"
#include "src/state/bidib_state_intern.h"
#include "src/transmission/bidib_transmission_intern.h"
volatile bool bidib_running;
pthread_rwlock_t bidib_trains_rwlock, bidib_boards_rwlock;
pthread_mutex_t trackstate_accessories_mutex, trackstate_peripherals_mutex, trackstate_segments_mutex,
	trackstate_reversers_mutex, trackstate_trains_mutex, trackstate_boosters_mutex,
	trackstate_track_outputs_mutex;
const char *const bidib_message_string_mapping[0x100];
const char *const bidib_cs_state_string_mapping[9];
#define CAP_N 8
#define CAP_LEN 16
static int cap_n; static uint8_t cap[CAP_N][CAP_LEN], cap_type[CAP_N], cap_addr[CAP_N][4];
bool bidib_node_try_send(const uint8_t *const a, uint8_t t, const uint8_t *const m, unsigned int id) {
	(void)id; VASSUME(cap_n < CAP_N);
	cap_type[cap_n] = t; for (int i = 0; i < 4; i++) cap_addr[cap_n][i] = a[i];
	for (size_t i = 0; i < CAP_LEN; i++) cap[cap_n][i] = (i <= m[0]) ? m[i] : 0;
	cap_n++;
	return false;
}
uint8_t bidib_node_state_get_and_incr_send_seqnum(const uint8_t *const a) { (void)a; return 7; }
static bool msg_is(int k, uint8_t t, t_bidib_node_address na, const uint8_t *d, int n) {
	uint8_t a[3] = {na.top, na.sub, na.subsub};
	int depth = ref_addr_depth(a);
	if (cap_type[k] != t || cap[k][0] != depth + 3 + n) return false;
	for (int i = 0; i < 3; i++) if (i < depth && cap[k][1 + i] != a[i]) return false;
	for (int i = 0; i < 10; i++) if (i < n && cap[k][4 + depth + i] != d[i]) return false;
	return true;
}
#if MODE == 1
/* simulated bus: one MSG_FEATURE answer per FEATURE_SET that was submitted, value as requested or different */
static int answered;
static int flush_n;
void verif_flush_stub(void) { flush_n++; }
uint8_t *bidib_read_intern_message(void) {
	if (answered >= cap_n) { VASSUME(0); return NULL; }      /* a board that never answers: outside the claim */
	int k = answered++;
	int depth = cap[k][0] - 5;                                /* FEATURE_SET: 2 data bytes */
	uint8_t *m = malloc(1 + depth + 3 + 2);
	m[0] = (uint8_t)(depth + 5);
	for (int i = 0; i < 3; i++) if (i < depth) m[1 + i] = cap[k][1 + i];
	m[1 + depth] = 0; m[2 + depth] = 1; m[3 + depth] = MSG_FEATURE;
	m[4 + depth] = cap[k][4 + depth];
	m[5 + depth] = ND_bool("board_accepts") ? cap[k][5 + depth] : ND_u8("other_value");
	return m;
}
void harness(void) {
	sb_build();
	t_bidib_board *bd[2] = {sbw.b1, sbw.b2};
	/* well-formed, distinct addresses with CONCRETE zero pattern (depth 1 and 2) so that the message length is concrete */
	bd[0]->node_addr.sub = 0; bd[0]->node_addr.subsub = 0; VASSUME(bd[0]->node_addr.top != 0);
	bd[1]->node_addr.subsub = 0; VASSUME(bd[1]->node_addr.top != 0 && bd[1]->node_addr.sub != 0);
	t_bidib_board_feature f[3];
	for (int i = 0; i < 3; i++) { f[i].number = ND_u8("feat_no"); f[i].value = ND_u8("feat_val"); }
	VASSUME(f[0].number != f[1].number);
	SB_PUSH(bd[0]->features, t_bidib_board_feature, f[0]); SB_PUSH(bd[0]->features, t_bidib_board_feature, f[1]);
	SB_PUSH(bd[1]->features, t_bidib_board_feature, f[2]);
	bidib_state_set_board_features();
	int k = 0;
	for (int b = 0; b < 2; b++) {
		if (!bd[b]->connected) continue;
		for (int i = 0; i < (b == 0 ? 2 : 1); i++) {
			t_bidib_board_feature *ff = &f[b == 0 ? i : 2];
			uint8_t d[2] = {ff->number, ff->value};
			VASSERT(k < cap_n && msg_is(k < CAP_N ? k : 0, MSG_FEATURE_SET, bd[b]->node_addr, d, 2), "each configured feature is sent once, in order, to the board it is configured for");
			k++;
		}
	}
	VASSERT(cap_n == k, "no feature setting goes to a disconnected board or to any other node");
	/* the same settings must go out again after EVERY reset: the configured values are not altered by what the boards answer */
	for (int b = 0; b < 2; b++)
		for (int i = 0; i < (b == 0 ? 2 : 1); i++) {
			t_bidib_board_feature *cf = &g_array_index(bd[b]->features, t_bidib_board_feature, i);
			VASSERT(bd[b]->features->len == (b == 0 ? 2u : 1u) && cf->number == f[b == 0 ? i : 2].number && cf->value == f[b == 0 ? i : 2].value,
			        "configured feature settings unchanged by the dialogue (next reset sends the same)");
		}
	VASSERT(answered == cap_n, "one answer consumed per setting (whatever value the board reports back)");
	VASSERT(verif_all_free(), "locks released");
	VWITNESS();
}
#else
void harness(void) {
	sb_build();
	t_bidib_board *b1 = sbw.b1;
	t_bidib_train *t1 = sbw.t1;
	VASSUME(sbw.has_track_output == ((b1->unique_id.class_id & 0x10) != 0));
	/* configuration validity as in C09 */
	t_bidib_board_accessory_mapping *p1 = &g_array_index(b1->points_board, t_bidib_board_accessory_mapping, 0);
	t_bidib_board_accessory_mapping *s1 = &g_array_index(b1->signals_board, t_bidib_board_accessory_mapping, 0);
	t_bidib_peripheral_mapping *l1 = &g_array_index(b1->peripherals, t_bidib_peripheral_mapping, 0);
	t_bidib_aspect *p1n = &g_array_index(p1->aspects, t_bidib_aspect, 0), *s1go = &g_array_index(s1->aspects, t_bidib_aspect, 0), *l1on = &g_array_index(l1->aspects, t_bidib_aspect, 0);
	VASSUME(p1->number <= 127 && s1->number <= 127 && p1n->value <= 127 && s1go->value <= 127);
	t_bidib_train_peripheral_mapping *fm = &g_array_index(t1->peripherals, t_bidib_train_peripheral_mapping, 0);
	t_bidib_train_peripheral_mapping *fo = &g_array_index(t1->peripherals, t_bidib_train_peripheral_mapping, 1);
	VASSUME((fm->bit <= 4 || fm->bit >= 8) && (fo->bit <= 4 || fo->bit >= 8));
	b1->node_addr.sub = 0; b1->node_addr.subsub = 0; VASSUME(b1->node_addr.top != 0);
#ifdef SB_TRACK_OUTPUT2
	/* second track output on board b2, first in the list; connected or not, class bit concrete (steers control flow) */
	t_bidib_board *b2 = sbw.b2;
	b2->unique_id.class_id |= 0x10;
	b2->node_addr.subsub = 0; VASSUME(b2->node_addr.top != 0 && b2->node_addr.sub != 0);
#endif
	/* initial values as the parsers record them */
	{ t_bidib_state_initial_value v = {g_string_new("p1"), g_string_new("n")}; SB_PUSH(bidib_initial_values.points, t_bidib_state_initial_value, v); }
	{ t_bidib_state_initial_value v = {g_string_new("s1"), g_string_new("go")}; SB_PUSH(bidib_initial_values.signals, t_bidib_state_initial_value, v); }
	{ t_bidib_state_initial_value v = {g_string_new("l1"), g_string_new("on")}; SB_PUSH(bidib_initial_values.peripherals, t_bidib_state_initial_value, v); }
	uint8_t fv = ND_u8("initial_function_value"); VASSUME(fv <= 1);
	{ t_bidib_state_train_initial_value v = {g_string_new("t1"), g_string_new("hd"), fv}; SB_PUSH(bidib_initial_values.trains, t_bidib_state_train_initial_value, v); }
	t_bidib_train_state_intern *ts = &g_array_index(bidib_track_state.trains, t_bidib_train_state_intern, 0);
	uint8_t other_state = g_array_index(ts->peripherals, t_bidib_train_peripheral_state, 1).state;
	bool fwd_before = ts->set_is_forwards;

	bidib_state_set_initial_values();

	bool conn = b1->connected;
	bool to = conn && sbw.has_track_output;
	int k = 0;
	uint8_t d[9];
	if (conn) {
		d[0] = p1->number; d[1] = p1n->value;
		VASSERT(k < cap_n && msg_is(k < CAP_N ? k : 0, MSG_ACCESSORY_SET, b1->node_addr, d, 2), "initial point aspect commanded once (as bidib_switch_point does)"); k++;
		d[0] = s1->number; d[1] = s1go->value;
		VASSERT(k < cap_n && msg_is(k < CAP_N ? k : 0, MSG_ACCESSORY_SET, b1->node_addr, d, 2), "initial signal aspect commanded once"); k++;
		d[0] = l1->port.port0; d[1] = l1->port.port1; d[2] = l1on->value;
		VASSERT(k < cap_n && msg_is(k < CAP_N ? k : 0, MSG_LC_OUTPUT, b1->node_addr, d, 3), "initial peripheral aspect commanded once"); k++;
	}
#ifdef SB_TRACK_OUTPUT2
	for (int o = 0; o < 2; o++) {
	t_bidib_board *ob = o == 0 ? b2 : b1;
	if (o == 0 ? b2->connected : to) {
#else
	{ t_bidib_board *ob = b1;
	if (to) {
#endif
		int grp = fm->bit < 5 ? 1 : fm->bit < 12 ? 2 : fm->bit < 16 ? 3 : fm->bit < 24 ? 4 : 5;
		int ogrp = fo->bit < 5 ? 1 : fo->bit < 12 ? 2 : fo->bit < 16 ? 3 : fo->bit < 24 ? 4 : 5;
		uint8_t fb[4] = {0, 0, 0, 0};
		if (ogrp == grp) fb[fo->bit / 8] |= (uint8_t)(other_state << (fo->bit % 8));
		fb[fm->bit / 8] |= (uint8_t)(fv << (fm->bit % 8));
		d[0] = t1->dcc_addr.addrl; d[1] = t1->dcc_addr.addrh; d[2] = t1->dcc_speed_steps == 28 ? 2 : t1->dcc_speed_steps == 126 ? 3 : 0;
		d[3] = (uint8_t)(1 << grp); d[4] = 0; d[5] = fb[0]; d[6] = fb[1]; d[7] = fb[2]; d[8] = fb[3];
		VASSERT(k < cap_n && msg_is(k < CAP_N ? k : 0, MSG_CS_DRIVE, ob->node_addr, d, 9), "initial train function commanded once per connected track output (as bidib_set_train_peripheral does)"); k++;
		/* the library also re-asserts speed 0 for that train on that output */
		d[3] = 1; d[4] = fwd_before ? 0x80 : 0x00; d[5] = d[6] = d[7] = d[8] = 0;
		VASSERT(k < cap_n && msg_is(k < CAP_N ? k : 0, MSG_CS_DRIVE, ob->node_addr, d, 9), "followed by speed 0 (direction kept)"); k++;
	}
	}
	VASSERT(cap_n == k, "nothing else is commanded; nothing at all for a disconnected board");
	VASSERT(verif_all_free(), "locks released");
	VWITNESS();
}
#endif
#endif
