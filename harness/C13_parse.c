/* C13-H1: every section parser survives ANY well-nested yaml event sequence (libyaml mode A of env/yaml_model.c):
 * no invalid pointer use, no use of uninitialised record members, no double free; it returns, and the clean-up the
 * real caller runs afterwards (bidib_state_free) releases everything exactly once.
 *
 * unit (real code): one parser translation unit is #included (UNIT 0 board file, 1 track file, 2 train file) so that
 *                   its static section parsers can be entered directly; bidib_config_parser.c (string converters,
 *                   top-level section loop), bidib_state.c (add functions), bidib_state_free.c, bidib_state_getter.c
 * ENTRY:            which parser is driven (see switch below); nested parsers are REAL (whole sub-tree under one entry)
 * input:            <= VERIF_YAML_K arbitrary well-nested events, scalars from the keyword dictionary of the section
 *                   plus arbitrary short strings; parent records in an arbitrary valid partially filled state
 * trusted:          libyaml's scanner (bytes -> events)
 */
#include "verif.h"
#include <yaml.h>
#include <glib.h>
#include "src/state/bidib_state_intern.h"
#include "src/parser/bidib_config_parser_intern.h"

#ifndef UNIT
#define UNIT 0
#endif
#ifndef ENTRY
#define ENTRY 0
#endif

#if UNIT == 0
#include "src/parser/bidib_config_parser_board.c"
#elif UNIT == 1
#include "src/parser/bidib_config_parser_track.c"
#else
#include "src/parser/bidib_config_parser_train.c"
#endif
/* scalar dictionary of the entry under test: DICT is a comma separated list of string literals (queries/C13.py) */
static const char *const dict[] = {DICT};
int verif_yaml_dict_size(void) { return (int)(sizeof(dict) / sizeof(dict[0])); }
void verif_yaml_word(int c, char *dst) {
	for (int k = 0; k < (int)(sizeof(dict) / sizeof(dict[0])); k++) {
		if (c == k) { const char *w = dict[k]; int i = 0; do { dst[i] = w[i]; } while (w[i++] != 0); }
	}
}
void verif_yaml_enter(int seqs_and_maps[], int n);

volatile bool bidib_running;
pthread_rwlock_t bidib_trains_rwlock, bidib_boards_rwlock;
pthread_mutex_t trackstate_accessories_mutex, trackstate_peripherals_mutex, trackstate_segments_mutex,
	trackstate_reversers_mutex, trackstate_trains_mutex, trackstate_boosters_mutex,
	trackstate_track_outputs_mutex;
void bidib_state_free(void);

static GArray *arr(guint esize) { return g_array_sized_new(FALSE, FALSE, esize, 4); }
static void init_state(void) {
	bidib_initial_values.points = arr(sizeof(t_bidib_state_initial_value));
	bidib_initial_values.signals = arr(sizeof(t_bidib_state_initial_value));
	bidib_initial_values.peripherals = arr(sizeof(t_bidib_state_initial_value));
	bidib_initial_values.trains = arr(sizeof(t_bidib_state_train_initial_value));
	bidib_track_state.points_board = arr(sizeof(t_bidib_board_accessory_state));
	bidib_track_state.points_dcc = arr(sizeof(t_bidib_dcc_accessory_state));
	bidib_track_state.signals_board = arr(sizeof(t_bidib_board_accessory_state));
	bidib_track_state.signals_dcc = arr(sizeof(t_bidib_dcc_accessory_state));
	bidib_track_state.peripherals = arr(sizeof(t_bidib_peripheral_state));
	bidib_track_state.reversers = arr(sizeof(t_bidib_reverser_state));
	bidib_track_state.segments = arr(sizeof(t_bidib_segment_state_intern));
	bidib_track_state.trains = arr(sizeof(t_bidib_train_state_intern));
	bidib_track_state.boosters = arr(sizeof(t_bidib_booster_state));
	bidib_track_state.track_outputs = arr(sizeof(t_bidib_track_output_state));
	bidib_boards = arr(sizeof(t_bidib_board));
	bidib_trains = arr(sizeof(t_bidib_train));
}
/* a board as the board-file parser leaves it: id, uid, empty lists */
static void add_board(const char *id, uint8_t pid) {
	t_bidib_board b = {g_string_new(id), {0x05, 0, 0x0D, 0x6B, 0, 0x83, pid}, false, {0, 0, 0}, false,
	                   arr(sizeof(t_bidib_board_feature)), arr(sizeof(t_bidib_board_accessory_mapping)),
	                   arr(sizeof(t_bidib_dcc_accessory_mapping)), arr(sizeof(t_bidib_board_accessory_mapping)),
	                   arr(sizeof(t_bidib_dcc_accessory_mapping)), arr(sizeof(t_bidib_peripheral_mapping)),
	                   arr(sizeof(t_bidib_segment_mapping)), arr(sizeof(t_bidib_reverser_mapping))};
	g_array_append_val(bidib_boards, b);
}

#if ENTRY == 99
/* string converters on ARBITRARY NUL-terminated strings of up to STRN characters in an exact-size heap buffer */
void harness(void) {
	char *str = malloc(STRN + 1);
	for (int i = 0; i < STRN; i++) str[i] = (char)ND_u8("ch");
	str[STRN] = 0;
	uint8_t b = 0; t_bidib_unique_id_mod uid; t_bidib_dcc_address da; t_bidib_peripheral_port po;
	bool e1 = bidib_string_to_byte(str, &b);
	bool e2 = bidib_string_to_uid(str, &uid);
	bool e3 = bidib_string_to_dccaddr(str, &da);
	bool e4 = bidib_string_to_port(str, &po);
	size_t len = 0; while (str[len]) len++;
	if (!e2) VASSERT(len == 16 && str[0] == '0' && str[1] == 'x', "a unique id is accepted only as 0x + 14 hex digits");
	if (!e3 || !e4) VASSERT(len == 6 && str[0] == '0' && str[1] == 'x', "dcc address / port accepted only as 0x + 4 hex digits");
	if (!e1) VASSERT(len > 0, "the empty string is no byte");
	(void)b;
	free(str);
	VWITNESS();
}
#else
void harness(void) {
	yaml_parser_t parser;
#ifndef NO_STATE_FREE
	init_state();
#else
	bidib_boards = arr(sizeof(t_bidib_board));
	bidib_trains = arr(sizeof(t_bidib_train));
#endif
	bool err = false;
	int ctx_map[] = {1, 2};                  /* sections are entered inside a mapping that is an element of a sequence */
	verif_yaml_enter(ctx_map, 2);
#if UNIT == 0
	if (ND_bool("one_board_before")) add_board("b1", 0xEC);
#if ENTRY == 0
	err = bidib_config_parse_single_board_features(&parser);
#else
	{ int top[] = {0}; verif_yaml_enter(top, 0); }
	err = bidib_config_parse_board_config("cfg") != 0;
#endif
#elif UNIT == 1
	add_board("b1", 0xEC);
	t_bidib_board *b = &g_array_index(bidib_boards, t_bidib_board, 0);
#if ENTRY == 0
	{ GArray *al = arr(sizeof(t_bidib_aspect));
	  if (ND_bool("one_aspect_before")) { t_bidib_aspect a = {g_string_new("n"), 1}; g_array_append_val(al, a); }
	  err = bidib_config_parse_aspect(&parser, al);
	  /* what the caller does with the list on any outcome: it belongs to an accessory record that is freed */
	  for (guint i = 0; i < al->len; i++) { t_bidib_aspect a = g_array_index(al, t_bidib_aspect, i); if (a.id != NULL) g_string_free(a.id, TRUE); }
	  g_array_free(al, TRUE); }
#elif ENTRY == 1
	err = bidib_config_parse_single_board_accessory(&parser, b, ND_bool("signal") ? BOARD_SETUP_SIGNALS_BOARD_KEY : BOARD_SETUP_POINTS_BOARD_KEY);
#elif ENTRY == 2
	{ GArray *pv = arr(sizeof(t_bidib_dcc_aspect_port_value));
	  err = bidib_config_parse_dcc_aspect_port(&parser, pv);
	  g_array_free(pv, TRUE); }
#elif ENTRY == 3
	{ GArray *al = arr(sizeof(t_bidib_dcc_aspect));
	  err = bidib_config_parse_dcc_aspect(&parser, al);
	  for (guint i = 0; i < al->len; i++) { t_bidib_dcc_aspect a = g_array_index(al, t_bidib_dcc_aspect, i); if (a.id != NULL) g_string_free(a.id, TRUE); if (a.port_values != NULL) g_array_free(a.port_values, TRUE); }
	  g_array_free(al, TRUE); }
#elif ENTRY == 4
	err = bidib_config_parse_single_dcc_accessory(&parser, b, ND_bool("signal") ? BOARD_SETUP_SIGNALS_DCC_KEY : BOARD_SETUP_POINTS_DCC_KEY);
#elif ENTRY == 5
	err = bidib_config_parse_single_board_peripheral(&parser, b);
#elif ENTRY == 6
	err = bidib_config_parse_single_board_segment(&parser, b);
#elif ENTRY == 7
	err = bidib_config_parse_single_board_reverser(&parser, b);
#elif ENTRY == 8
	err = bidib_config_parse_single_board_setup(&parser);
#else
	{ int top[] = {0}; verif_yaml_enter(top, 0); }
	err = bidib_config_parse_track_config("cfg") != 0;
#endif
#else
	add_board("b1", 0xEC);
	{ t_bidib_train t0 = {g_string_new("t0"), {7, 0, 0}, 126, NULL, arr(sizeof(t_bidib_train_peripheral_mapping))};
	  if (ND_bool("one_train_before")) g_array_append_val(bidib_trains, t0); else bidib_state_free_single_train(t0); }
#if ENTRY == 0
	{ t_bidib_train t = {g_string_new("tx"), {9, 0, 0}, 126, NULL, arr(sizeof(t_bidib_train_peripheral_mapping))};
	  err = bidib_config_parse_single_train_calibration(&parser, &t);
	  bidib_state_free_single_train(t); }
#elif ENTRY == 1
	{ t_bidib_train t = {g_string_new("tx"), {9, 0, 0}, 126, NULL, arr(sizeof(t_bidib_train_peripheral_mapping))};
	  t_bidib_train_state_intern ts; ts.id = g_string_new("tx"); ts.peripherals = arr(sizeof(t_bidib_train_peripheral_state));
	  err = bidib_config_parse_single_train_peripheral(&parser, &t, &ts);
	  bidib_state_free_single_train(t);
	  bidib_state_free_single_train_state_intern(ts); }
#elif ENTRY == 2
	err = bidib_config_parse_single_train(&parser);
#else
	{ int top[] = {0}; verif_yaml_enter(top, 0); }
	err = bidib_config_parse_train_config("cfg") != 0;
#endif
#endif
	(void)err;
	extern int verif_yaml_open_events;
	VASSERT(verif_yaml_open_events == 0, "every yaml event obtained is deleted exactly once");
	VASSERT(verif_all_free(), "all locks released (a rejected configuration must not leave a lock behind)");
	/* the caller's clean-up after success or failure (bidib_stop -> bidib_state_free) */
#if !defined(NO_STATE_FREE) && !defined(NO_FINAL_FREE)
	bidib_state_free();
#endif
	VWITNESS();
}
#endif
