/* C14 (layout): the per-board record of the track file routes every section to the parser of THAT section, whatever
 * sections precede it; sections in the documented order are accepted.
 *
 * unit (real code): bidib_config_parse_single_board_setup (config_parser_track.c, #included so that the static is
 *                   reachable), bidib_state_get_board_ref
 * stubs:            the five record parsers -> recorders that consume the record's closing event (--replace-calls);
 *                   the records themselves are C13 / C14_accept
 * input:            id <board> then NSEC sections "<key> [ { } ]" with the keys chosen by the solver among the seven
 *                   section names (any order, repeats) and an unknown word; event types concrete (shape mode)
 */
#include "verif.h"
#include <yaml.h>
#include <glib.h>
#include "src/state/bidib_state_intern.h"
#include "src/parser/bidib_config_parser_intern.h"
#include "src/parser/bidib_config_parser_track.c"

#ifndef NSEC
#define NSEC 2
#endif
static const char *const dict[] = {"points-board", "points-dcc", "signals-board", "signals-dcc", "peripherals", "segments",
                                   "reversers", "id", "b1", "zz"};
#define NWORDS 10
int verif_yaml_dict_size(void) { return NWORDS; }
void verif_yaml_word(int c, char *dst) {
	for (int k = 0; k < NWORDS; k++) {
		if (c == k) { const char *w = dict[k]; int i = 0; do { dst[i] = w[i]; } while (w[i++] != 0); }
	}
}
void verif_yaml_enter(int seqs_and_maps[], int n);
extern int verif_yaml_choice_log[];      /* dictionary index of the scalar delivered as event i (yaml model, shape mode) */
extern int verif_yaml_pos;

volatile bool bidib_running;
pthread_rwlock_t bidib_trains_rwlock, bidib_boards_rwlock;
pthread_mutex_t trackstate_accessories_mutex, trackstate_peripherals_mutex, trackstate_segments_mutex,
	trackstate_reversers_mutex, trackstate_trains_mutex, trackstate_boosters_mutex,
	trackstate_track_outputs_mutex;

enum { P_BOARD_ACC = 1, P_DCC_ACC, P_PERIPHERAL, P_SEGMENT, P_REVERSER };
static int calls, call_parser[NSEC + 2], call_type[NSEC + 2];
static t_bidib_board *call_board[NSEC + 2];
static void eat_record(yaml_parser_t *p) { yaml_event_t e; if (yaml_parser_parse(p, &e)) yaml_event_delete(&e); }
static bool rec(yaml_parser_t *p, t_bidib_board *b, int parser, int type) {
	VASSUME(calls < NSEC + 2); call_parser[calls] = parser; call_type[calls] = type; call_board[calls] = b; calls++;
	eat_record(p); return false;
}
bool stub_board_accessory(yaml_parser_t *p, t_bidib_board *b, t_bidib_parser_board_setup_scalar t) { return rec(p, b, P_BOARD_ACC, (int)t); }
bool stub_dcc_accessory(yaml_parser_t *p, t_bidib_board *b, t_bidib_parser_board_setup_scalar t) { return rec(p, b, P_DCC_ACC, (int)t); }
bool stub_peripheral(yaml_parser_t *p, t_bidib_board *b) { return rec(p, b, P_PERIPHERAL, 0); }
bool stub_segment(yaml_parser_t *p, t_bidib_board *b) { return rec(p, b, P_SEGMENT, 0); }
bool stub_reverser(yaml_parser_t *p, t_bidib_board *b) { return rec(p, b, P_REVERSER, 0); }

void harness(void) {
	yaml_parser_t parser;
	bidib_boards = g_array_sized_new(FALSE, FALSE, sizeof(t_bidib_board), 2);
	t_bidib_board b = {g_string_new("b1"), {0x05, 0, 0x0D, 0x6B, 0, 0x83, 0xEC}, false, {0, 0, 0}, false,
	                   NULL, NULL, NULL, NULL, NULL, NULL, NULL, NULL};
	g_array_append_val(bidib_boards, b);
	int ctx_map[] = {1, 2};
	verif_yaml_enter(ctx_map, 2);

	bool err = bidib_config_parse_single_board_setup(&parser);

	/* events: 0 "id", 1 board, then per section s: 2+5s key, [ { } ]; last: } */
	int key[NSEC];
	bool shape_ok = verif_yaml_choice_log[0] == 7 && verif_yaml_choice_log[1] == 8;   /* "id" "b1" */
	bool increasing = true, all_sections = true;
	for (int s = 0; s < NSEC; s++) {
		key[s] = verif_yaml_choice_log[2 + 5 * s];
		if (key[s] < 0 || key[s] > 6) all_sections = false;
		if (s > 0 && key[s] <= key[s - 1]) increasing = false;
	}
	/* routing: whatever was accepted so far, call i belongs to section i and went to that section's parser */
	for (int i = 0; i < NSEC; i++) {
		if (i < calls && shape_ok) {
			int k = key[i];
			int want_parser = (k == 0 || k == 2) ? P_BOARD_ACC : (k == 1 || k == 3) ? P_DCC_ACC : k == 4 ? P_PERIPHERAL : k == 5 ? P_SEGMENT : P_REVERSER;
			int want_type = k == 0 ? BOARD_SETUP_POINTS_BOARD_KEY : k == 1 ? BOARD_SETUP_POINTS_DCC_KEY :
			                k == 2 ? BOARD_SETUP_SIGNALS_BOARD_KEY : k == 3 ? BOARD_SETUP_SIGNALS_DCC_KEY : 0;
			VASSERT(k >= 0 && k <= 6, "a record parser runs only below one of the seven section keys");
			VASSERT(call_parser[i] == want_parser, "each section's records go to the parser of that section");
			VASSERT(want_parser > P_DCC_ACC || call_type[i] == want_type, "points and signals are told apart (points-board / signals-board / points-dcc / signals-dcc)");
			VASSERT(call_board[i] == &g_array_index(bidib_boards, t_bidib_board, 0), "records are attached to the board named by id");
		}
	}
	if (shape_ok && all_sections && increasing)
		VASSERT(!err && calls == NSEC, "sections in the documented order are accepted, one record parsed per record");
	if (!shape_ok || !all_sections) VASSERT(err, "unknown board, missing id or unknown section key: rejected");
	extern int verif_yaml_open_events;
	VASSERT(verif_yaml_open_events == 0, "every yaml event obtained is deleted exactly once");
	VWITNESS();
}
