/* C03-H1: one step of the per-node budget machine from an arbitrary valid node state.
 *
 * unit (real code): src/transmission/bidib_transmission_node_states.c (included: statics),
 *                   src/transmission/bidib_transmission_responses.c
 * stubs:            bidib_add_to_buffer -> wire log, bidib_flush -> counter
 * shape:            NRESP (outstanding requests 0..3), NHELD (held messages 0..2),
 *                   STEP 0 = bidib_node_try_send, 1 = bidib_node_state_update
 * symbolic:         node address, all request types, creation times, clock, answer type,
 *                   the new message's type and bytes
 */
#include "verif.h"
#include "verif_glib.h"
#include "src/transmission/bidib_transmission_node_states.c"

#ifndef NRESP
#define NRESP 2
#endif
#ifndef NHELD
#define NHELD 1
#endif
#ifndef STEP
#define STEP 1
#endif
#define LIMIT 48

/* ---- stubs of the send buffer ---- */
#define WIRE_MAX 4
static const uint8_t *wire_ptr[WIRE_MAX];
static uint8_t wire_ticket[WIRE_MAX];
static int wire_n;
static int flush_n;
static bool wire_node_mutex_held = true;
void bidib_add_to_buffer(const uint8_t *const message) {
	VASSUME(wire_n < WIRE_MAX);
	wire_ptr[wire_n] = message;
	wire_ticket[wire_n] = message[2]; /* harness messages: {3, 0, ticket, type} */
	wire_n++;
}
void bidib_flush(void) { flush_n++; }

static int size_of(uint8_t t) { return bidib_response_info[t][1]; }
static bool answers(uint8_t req, uint8_t resp) {
	for (int i = 2; i <= 4; i++) {
		if (i <= bidib_response_info[req][0] && bidib_response_info[req][i] == resp) return true;
	}
	return false;
}

void harness(void) {
	uint8_t addr[4];
	addr[0] = ND_u8("addr0"); addr[1] = ND_u8("addr1"); addr[2] = ND_u8("addr2"); addr[3] = 0;
	/* address is a well-formed stack: no non-zero byte after a zero byte */
	VASSUME(addr[0] != 0 || addr[1] == 0);
	VASSUME(addr[1] != 0 || addr[2] == 0);

	verif_now = ND_u8("now");
	VASSUME(verif_now <= 20);

	bidib_node_state_table_init();
	t_bidib_node_state *st = bidib_node_query(addr);

	/* ---- arbitrary valid pre-state ---- */
	uint8_t rtype[NRESP + 1]; long rtime[NRESP + 1]; unsigned raid[NRESP + 1];
	int sum = 0;
	for (int i = 0; i < NRESP; i++) {
		rtype[i] = ND_u8("rtype"); VASSUME(rtype[i] < 0x80); VASSUME(size_of(rtype[i]) > 0);
		rtime[i] = ND_u8("rtime"); VASSUME(rtime[i] <= verif_now);
		if (i > 0) VASSUME(rtime[i - 1] <= rtime[i]);
		raid[i] = ND_u8("raid");
		t_bidib_response_queue_entry *e = malloc(sizeof *e);
		e->type = rtype[i]; e->creation_time = rtime[i]; e->action_id = raid[i];
		g_queue_push_tail(st->response_queue, e);
		sum += size_of(rtype[i]);
	}
	VASSUME(sum <= LIMIT);                       /* INV (a) */
	st->current_max_respond = sum;
	uint8_t htype[NHELD + 1]; uint8_t *hmsg[NHELD + 1];
	for (int i = 0; i < NHELD; i++) {
		htype[i] = ND_u8("htype"); VASSUME(htype[i] < 0x80);
		t_bidib_message_queue_entry *m = malloc(sizeof *m);
		m->type = htype[i]; memcpy(m->addr, addr, 4);
		m->message = malloc(4);
		m->message[0] = 3; m->message[1] = 0; m->message[2] = (uint8_t)(10 + i); m->message[3] = htype[i];
		m->action_id = 0;
		hmsg[i] = m->message;
		g_queue_push_tail(st->message_queue, m);
	}
#if NHELD > 0
	VASSUME(sum + size_of(htype[0]) > LIMIT);      /* INV (c): the oldest held message does not fit */
#endif

#if STEP == 0
	/* ---- bidib_node_try_send with an arbitrary request ---- */
	uint8_t t = ND_u8("type"); VASSUME(t < 0x80);
	uint8_t msg[4] = {3, 0, 99, t};
	unsigned aid = ND_u8("aid");
	verif_tags_armed = true;
	bool admitted = bidib_node_try_send(addr, t, msg, aid);
	verif_tags_armed = false;
	bool expect = (NHELD == 0) && (sum + size_of(t) <= LIMIT);
	VASSERT(admitted == expect, "admitted iff nothing is held and the budget has room");
	VASSERT(wire_n == 0, "try_send itself puts nothing on the wire");
	if (admitted) {
		VASSERT(st->current_max_respond == sum + size_of(t), "budget increased by the worst-case response size");
		VASSERT(st->current_max_respond <= LIMIT, "budget never exceeds 48");
		VASSERT(g_queue_get_length(st->message_queue) == NHELD, "held queue unchanged");
		guint want = NRESP + (size_of(t) > 0 ? 1 : 0);
		VASSERT(g_queue_get_length(st->response_queue) == want, "one outstanding entry iff an answer is expected");
		if (size_of(t) > 0) {
			t_bidib_response_queue_entry *e = verif_queue_nth(st->response_queue, NRESP);
			VASSERT(e->type == t && e->creation_time == verif_now && e->action_id == aid, "new outstanding entry at the tail");
		}
	} else {
		VASSERT(st->current_max_respond == sum, "deferred message does not change the budget");
		VASSERT(g_queue_get_length(st->response_queue) == NRESP, "outstanding queue unchanged");
		VASSERT(g_queue_get_length(st->message_queue) == NHELD + 1, "deferred message appended");
		t_bidib_message_queue_entry *m = verif_queue_nth(st->message_queue, NHELD);
		VASSERT(m->type == t && m->message != msg && m->message[0] == 3 && m->message[2] == 99 && m->message[3] == t,
		        "held entry is a private copy of the message at the tail");
		VASSERT(m->addr[0] == addr[0] && m->addr[1] == addr[1] && m->addr[2] == addr[2], "held entry keeps the address");
	}
	for (int i = 0; i < NRESP; i++) {
		t_bidib_response_queue_entry *e = verif_queue_nth(st->response_queue, i);
		VASSERT(e->type == rtype[i], "older outstanding entries untouched");
	}
#else
	/* ---- bidib_node_state_update with an arbitrary uplink type at an arbitrary later time ---- */
	uint8_t r = ND_u8("resp");
	verif_tags_armed = true;
	unsigned got_aid = bidib_node_state_update(addr, r);
	verif_tags_armed = false;
	/* reference: minimal number of head removals k_ref */
	int k_ref = 0; bool matched = false; unsigned want_aid = 0;
	for (int i = 0; i < NRESP; i++) {
		if (k_ref != i || matched) break;
		if (answers(rtype[i], r)) { matched = true; want_aid = raid[i]; k_ref = i + 1; }
		else if (verif_now - rtime[i] >= 2) { k_ref = i + 1; }
	}
	/* what the library removed: it only ever pops heads, so the survivors are a suffix */
	int sent = wire_n;
	int len_after = (int)g_queue_get_length(st->response_queue);
	int appended = 0;
	for (int i = 0; i < NHELD; i++) if (i < sent && size_of(htype[i]) > 0) appended++;
	int k_lib = NRESP - (len_after - appended);
	VASSERT(k_lib >= 0 && k_lib <= NRESP, "outstanding queue only shrinks by removals");
	VASSERT(!matched || k_lib >= k_ref, "an answered request (and the expired ones before it) are removed");
	int fresh_removed = 0;
	for (int i = 0; i < NRESP; i++) {
		if (i < k_lib) {
			bool expired = verif_now - rtime[i] >= 2;
			VASSERT(expired || answers(rtype[i], r), "a request is only dropped if answered or older than 2 s");
			if (!expired) fresh_removed++;
		}
	}
	VASSERT(fresh_removed <= 1, "one answer releases at most one unexpired request");
	if (k_lib == k_ref) VASSERT(got_aid == (matched ? want_aid : 0), "action id of the answered request is returned");
	int ref_sum = 0;     /* budget by the library's own removals */
	int spec_sum = 0;    /* budget after answers and 2-second expiry (reference) */
	for (int i = 0; i < NRESP; i++) {
		if (i >= k_lib && k_lib >= 0 && i - k_lib < len_after) {
			t_bidib_response_queue_entry *e = verif_queue_nth(st->response_queue, i - k_lib);
			VASSERT(e->type == rtype[i] && e->creation_time == rtime[i], "surviving outstanding entries keep order");
			ref_sum += size_of(rtype[i]);
			if (i >= k_ref) spec_sum += size_of(rtype[i]);
		}
	}
	/* held messages: released oldest first, exactly once, only while they fit */
	VASSERT(sent <= NHELD, "no message duplicated");
	for (int i = 0; i < NHELD; i++) {
		if (i < sent) {
			VASSERT(wire_ticket[i] == 10 + i, "held messages reach the wire in submission order");
			ref_sum += size_of(htype[i]);
			spec_sum += size_of(htype[i]);
		}
	}
	VASSERT((int)g_queue_get_length(st->message_queue) == NHELD - sent, "released messages leave the held queue");
	for (int i = 0; i < NHELD; i++) {
		if (i >= sent && i - sent < (int)g_queue_get_length(st->message_queue)) {
			t_bidib_message_queue_entry *m = verif_queue_nth(st->message_queue, i - sent);
			VASSERT(m->message == hmsg[i], "still-held messages keep order");
		}
	}
	VASSERT(st->current_max_respond == ref_sum, "budget counter equals the sum over outstanding requests");
	VASSERT(st->current_max_respond <= LIMIT, "budget never exceeds 48");
#if NHELD > 0
	if (sent < NHELD) {
		int hs = 0;
		for (int i = 0; i < NHELD; i++) if (i == sent) hs = size_of(htype[i]);
		VASSERT(spec_sum + hs > LIMIT, "not stranded: oldest held message is released as soon as the budget (after answers / 2 s expiry) has room");
	}
#endif
	VASSERT(sent == 0 || flush_n > 0, "released messages are flushed");
#endif
	VASSERT(verif_all_free(), "all locks released");
	VWITNESS();
}
