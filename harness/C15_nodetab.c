/* C15: node table - connectivity and addresses at startup and on node new / lost.
 *
 * unit (real code): bidib_state_init_allocation_table, bidib_state_query_nodetab (state.c, included: static),
 *                   bidib_state_node_new, bidib_state_node_lost, bidib_state_is_subnode (state_setter.c, included),
 *                   bidib_state_getter.c, bidib_transmission_util.c (extractors)
 * stubs:            SIMULATED BUS: bidib_send_nodetab_getall / _getnext enqueue the answers a real interface gives for
 *                   a symbolic node tree (NODETAB_COUNT, then one NODETAB row per request); bidib_read_intern_message
 *                   pops them (optionally answers "nothing yet" once); one extra NODETAB_COUNT may be injected at a
 *                   solver-chosen point of the dialogue (table changed during enumeration -> restart); usleep no-op
 * TREE (shape):     0 root only   1 root with leaves A, B   2 root - interface A - leaf C   3 root - interface A (leaf C) + leaf B
 *                   local addresses and all unique-id bytes symbolic (pairwise distinct), so each node hits or misses
 *                   the two configured boards b1 / b2 of the builder world
 * MODE 0 oracle:    afterwards a configured board is connected iff its unique id is in the tree, with the address
 *                   formed by the path of local addresses; unknown nodes are ignored; the dialogue terminates
 * MODE 1:           one arbitrary NODE_NEW or NODE_LOST on an arbitrary two-board state vs the reference semantics
 * MODE 2:           bidib_state_is_subnode as a total function over all address pairs
 */
#define SB_B2 1
#define SB_TRAINS 0
#define SB_POINTS_BOARD 0
#define SB_POINTS_DCC 0
#define SB_SIGNALS 0
#define SB_PERIPHERALS 0
#define SB_REVERSERS 0
#define SB_SEGMENTS 1
#define SB_SEG_ADDRS 0
#define SB_BOOSTER 0
#define SB_TRACK_OUTPUT 0
#include "verif.h"
#include "verif_glib.h"
#include "state_builder.h"
#include "src/state/bidib_state.c"
#include "src/state/bidib_state_setter.c"

#ifndef MODE
#define MODE 0
#endif
#ifndef TREE
#define TREE 1
#endif

volatile bool bidib_running;
pthread_rwlock_t bidib_trains_rwlock, bidib_boards_rwlock;
pthread_mutex_t trackstate_accessories_mutex, trackstate_peripherals_mutex, trackstate_segments_mutex,
	trackstate_reversers_mutex, trackstate_trains_mutex, trackstate_boosters_mutex,
	trackstate_track_outputs_mutex;
const char *const bidib_cs_state_string_mapping[9];

/* ---- the tree ---- */
#define NNODES 4                              /* 0 root, 1 A, 2 B, 3 C */
static t_bidib_unique_id_mod UID[NNODES];
static uint8_t LOCAL[NNODES];
static const int PARENT[NNODES] = {-1, 0, 0, 1};
#if TREE == 0
static const bool PRESENT[NNODES] = {true, false, false, false};
#elif TREE == 1
static const bool PRESENT[NNODES] = {true, true, true, false};
#elif TREE == 2
static const bool PRESENT[NNODES] = {true, true, false, true};
#else
static const bool PRESENT[NNODES] = {true, true, true, true};
#endif
static t_bidib_node_address addr_of(int n) {
	t_bidib_node_address a = {0, 0, 0};
	if (n == 1 || n == 2) a.top = LOCAL[n];
	if (n == 3) { a.top = LOCAL[1]; a.sub = LOCAL[3]; }
	return a;
}
static int node_of(t_bidib_node_address a) {
	for (int n = 0; n < NNODES; n++) { t_bidib_node_address x = addr_of(n); if (PRESENT[n] && x.top == a.top && x.sub == a.sub && x.subsub == a.subsub) return n; }
	return -1;
}
static bool uid_eq(t_bidib_unique_id_mod a, t_bidib_unique_id_mod b) {
	return a.class_id == b.class_id && a.class_id_ext == b.class_id_ext && a.vendor_id == b.vendor_id && a.product_id1 == b.product_id1 &&
	       a.product_id2 == b.product_id2 && a.product_id3 == b.product_id3 && a.product_id4 == b.product_id4;
}

/* ---- simulated bus ---- */
#define BUS_MAX 24
static uint8_t *bus_q[BUS_MAX]; static int bus_head, bus_tail;
static int next_row[NNODES];
static int getall_n, inject_at = -1, sends;
static uint8_t *mk_msg(t_bidib_node_address from, uint8_t type, const uint8_t *d, int n) {
	uint8_t a[3] = {from.top, from.sub, from.subsub};
	int depth = a[0] == 0 ? 0 : a[1] == 0 ? 1 : a[2] == 0 ? 2 : 3;
	uint8_t *m = malloc(1 + depth + 3 + n);
	m[0] = (uint8_t)(depth + 3 + n);
	for (int i = 0; i < 3; i++) if (i < depth) m[1 + i] = a[i];
	m[1 + depth] = 0; m[2 + depth] = 1; m[3 + depth] = type;
	for (int i = 0; i < 12; i++) if (i < n) m[4 + depth + i] = d[i];
	return m;
}
static void bus_push(uint8_t *m) { VASSUME(bus_tail < BUS_MAX); bus_q[bus_tail++] = m; }
static int rows_of(int n) { int c = 1; for (int k = 0; k < NNODES; k++) if (PRESENT[k] && PARENT[k] == n) c++; return c; }
static int row_node(int n, int r) {           /* row 0 = the interface itself, then its children in index order */
	if (r == 0) return n;
	int c = 0; for (int k = 0; k < NNODES; k++) if (PRESENT[k] && PARENT[k] == n) { c++; if (c == r) return k; }
	return -1;
}
static void maybe_inject(t_bidib_node_address from) {
	sends++;
	if (sends == inject_at) { uint8_t d[1] = {(uint8_t)rows_of(0)}; (void)from; t_bidib_node_address root = {0, 0, 0}; bus_push(mk_msg(root, MSG_NODETAB_COUNT, d, 1)); }
}
void bidib_send_nodetab_getall(t_bidib_node_address node, unsigned int aid) {
	(void)aid; getall_n++;
	int n = node_of(node);
	VASSERT(n >= 0 && (n == 0 || (UID[n].class_id & 0x80)), "node tables are requested from the root and from interface nodes only");
	if (n < 0) return;
	next_row[n] = 0;
	uint8_t d[1] = {(uint8_t)rows_of(n)};
	bus_push(mk_msg(node, MSG_NODETAB_COUNT, d, 1));
	maybe_inject(node);
}
void bidib_send_nodetab_getnext(t_bidib_node_address node, unsigned int aid) {
	(void)aid;
	int n = node_of(node);
	if (n < 0) return;
	int k = row_node(n, next_row[n]++);
	if (k < 0) return;
	uint8_t d[9] = {1, k == n ? 0 : LOCAL[k], UID[k].class_id, UID[k].class_id_ext, UID[k].vendor_id, UID[k].product_id1,
	                UID[k].product_id2, UID[k].product_id3, UID[k].product_id4};
	bus_push(mk_msg(node, MSG_NODETAB, d, 9));
	maybe_inject(node);
}
static int empty_polls;
uint8_t *bidib_read_intern_message(void) {
	if (bus_head >= bus_tail) { VASSUME(0); return NULL; }       /* a silent bus never completes: outside the claim */
#ifdef EMPTY_POLLS
	if (empty_polls < EMPTY_POLLS && ND_bool("nothing_yet")) { empty_polls++; return NULL; }
#endif
	return bus_q[bus_head++];
}
void bidib_flush(void) { }
void bidib_add_to_buffer(const uint8_t *const m) { (void)m; }
uint8_t bidib_node_state_get_and_incr_send_seqnum(const uint8_t *const a) { (void)a; return 1; }
bool bidib_node_try_send(const uint8_t *const a, uint8_t t, const uint8_t *const m, unsigned int id) { (void)a; (void)t; (void)m; (void)id; return false; }

void harness(void) {
	sb_build();
	t_bidib_board *bd[2] = {sbw.b1, sbw.b2};
#if MODE == 0
	bd[0]->connected = false; bd[1]->connected = false;      /* as after the parser / bidib_state_reset */
	for (int n = 0; n < NNODES; n++) {
		/* interface bit concrete per shape (A is an interface exactly in the trees where it has a child) */
		UID[n].class_id = (n == 0 || (n == 1 && TREE >= 2)) ? 0xC5 : 0x45;   /* concrete class byte: symex must see the interface bit */ UID[n].class_id_ext = ND_u8("uid1"); UID[n].vendor_id = ND_u8("uid2"); UID[n].product_id1 = ND_u8("uid3");
		UID[n].product_id2 = ND_u8("uid4"); UID[n].product_id3 = ND_u8("uid5"); UID[n].product_id4 = ND_u8("uid6");
#ifdef SYM_LOCAL
		LOCAL[n] = ND_u8("local"); VASSUME(n == 0 || LOCAL[n] != 0);
#else
		LOCAL[n] = (uint8_t)(n == 3 ? 7 : 4 + n);   /* concrete local addresses (the extractors' terminator scans stay concrete) */
#endif
#ifdef MATCH
		/* concrete identity map (one hex digit per node: 0 = not configured, 1 / 2 = board b1 / b2): which board a tree node
		 * is steers the enumeration's control flow, so these shapes keep it concrete (the byte values stay symbolic) */
		{ int m = (MATCH >> (4 * n)) & 0xF;
		  if (m) { uint8_t cls = UID[n].class_id; bd[m - 1]->unique_id.product_id4 = (uint8_t)(0x10 * m + 1);
		           bd[m - 1]->unique_id.class_id = cls; UID[n] = bd[m - 1]->unique_id; }
		  else UID[n].product_id4 = (uint8_t)(0x30 + n); }
#endif
		for (int k = 0; k < n; k++) VASSUME(!uid_eq(UID[n], UID[k]));
	}
#ifdef MATCH
	for (int b = 0; b < 2; b++) { bool used = false; for (int n = 0; n < NNODES; n++) if (((MATCH >> (4 * n)) & 0xF) == b + 1) used = true;
	                              if (!used) bd[b]->unique_id.product_id4 = (uint8_t)(0x50 + b); }
#endif
	LOCAL[0] = 0;
	VASSUME(LOCAL[1] != LOCAL[2]);
	/* shape: A is an interface exactly in the trees where it has a child; leaves are not interfaces */
	inject_at = INJECT;          /* shape: -1 = no table change, k = a NODETAB_COUNT arrives after the k-th request */

	bidib_state_init_allocation_table();

	for (int b = 0; b < 2; b++) {
		int hit = -1;
		for (int n = 0; n < NNODES; n++) if (PRESENT[n] && uid_eq(UID[n], bd[b]->unique_id)) hit = n;
		VASSERT(bd[b]->connected == (hit >= 0), "a configured board is connected exactly when its unique id is in the node tree");
		if (hit >= 0) {
			t_bidib_node_address want = addr_of(hit);
			VASSERT(bd[b]->node_addr.top == want.top && bd[b]->node_addr.sub == want.sub && bd[b]->node_addr.subsub == want.subsub,
			        "its address is the path of local addresses from the root interface");
		}
	}
	if (inject_at < 0) VASSERT(bus_head == bus_tail, "every answer of the bus was consumed");
	/* (a change notice that arrives after the last row was read is left for NODE_NEW/NODE_LOST to report: not asserted) */
	VASSERT(verif_all_free(), "locks released");
#elif MODE == 1
	t_bidib_node_address node = {ND_u8("n0"), ND_u8("n1"), ND_u8("n2")};
	VASSUME(node.top != 0 || (node.sub == 0 && node.subsub == 0)); VASSUME(node.sub != 0 || node.subsub == 0);
	uint8_t local = ND_u8("local"); VASSUME(local != 0);
	t_bidib_unique_id_mod u = {ND_u8("u0"), ND_u8("u1"), ND_u8("u2"), ND_u8("u3"), ND_u8("u4"), ND_u8("u5"), ND_u8("u6")};
	for (int b = 0; b < 2; b++) {      /* board addresses are well-formed stacks */
		VASSUME(bd[b]->node_addr.top != 0 || (bd[b]->node_addr.sub == 0 && bd[b]->node_addr.subsub == 0));
		VASSUME(bd[b]->node_addr.sub != 0 || bd[b]->node_addr.subsub == 0);
	}
	bool pre_conn[2] = {bd[0]->connected, bd[1]->connected};
	t_bidib_node_address pre_addr[2] = {bd[0]->node_addr, bd[1]->node_addr};
	int hit = uid_eq(u, bd[0]->unique_id) ? 0 : uid_eq(u, bd[1]->unique_id) ? 1 : -1;
	bool is_new = ND_bool("node_new");
	if (is_new) bidib_state_node_new(node, local, u); else bidib_state_node_lost(u);
	for (int b = 0; b < 2; b++) {
		bool want_conn = pre_conn[b]; t_bidib_node_address want_addr = pre_addr[b];
		if (is_new) {
			if (b == hit) {
				want_conn = true; want_addr = node;
				if (node.top == 0) want_addr.top = local; else if (node.sub == 0) want_addr.sub = local; else want_addr.subsub = local;
			}
		} else if (hit >= 0) {
			if (b == hit) want_conn = false;
			else if (bd[hit]->unique_id.class_id & 0x80) {
				/* everything beneath a lost interface: its address is a proper prefix of the other board's address */
				uint8_t p[3] = {pre_addr[hit].top, pre_addr[hit].sub, pre_addr[hit].subsub}, s[3] = {pre_addr[b].top, pre_addr[b].sub, pre_addr[b].subsub};
				int dp = p[0] == 0 ? 0 : p[1] == 0 ? 1 : p[2] == 0 ? 2 : 3, ds = s[0] == 0 ? 0 : s[1] == 0 ? 1 : s[2] == 0 ? 2 : 3;
				bool under = ds > dp;
				for (int i = 0; i < 3; i++) if (i < dp && p[i] != s[i]) under = false;
				if (under) want_conn = false;
			}
		}
		VASSERT(bd[b]->connected == want_conn, "connectivity after NODE_NEW / NODE_LOST (incl. everything beneath a lost interface)");
		VASSERT(bd[b]->node_addr.top == want_addr.top && bd[b]->node_addr.sub == want_addr.sub && bd[b]->node_addr.subsub == want_addr.subsub,
		        "address after NODE_NEW = announcing interface's address extended by the local address; unchanged otherwise");
	}
	VASSERT(verif_all_free(), "locks released");
#else
	t_bidib_node_address a = {ND_u8("a0"), ND_u8("a1"), ND_u8("a2")}, s = {ND_u8("s0"), ND_u8("s1"), ND_u8("s2")};
	VASSUME(a.top != 0 || (a.sub == 0 && a.subsub == 0)); VASSUME(a.sub != 0 || a.subsub == 0);
	VASSUME(s.top != 0 || (s.sub == 0 && s.subsub == 0)); VASSUME(s.sub != 0 || s.subsub == 0);
	uint8_t p[3] = {a.top, a.sub, a.subsub}, q[3] = {s.top, s.sub, s.subsub};
	int dp = p[0] == 0 ? 0 : p[1] == 0 ? 1 : p[2] == 0 ? 2 : 3, dq = q[0] == 0 ? 0 : q[1] == 0 ? 1 : q[2] == 0 ? 2 : 3;
	bool want = dq > dp;
	for (int i = 0; i < 3; i++) if (i < dp && p[i] != q[i]) want = false;
	VASSERT(bidib_state_is_subnode(a, s) == want, "is_subnode <=> the first address is a proper prefix of the second");
#endif
	VWITNESS();
}
