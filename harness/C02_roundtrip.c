/* C02-S4: whatever the library's own sender emits, its receiver decodes to the identical payload.
 *
 * unit (real code): bidib_flush_impl (send.c, included) piped into bidib_receive_first_pkt_magic +
 *                   bidib_receive_packet (receive.c, included); bidib_transmission_crc.c
 * stub:             bidib_split_packet -> recorder (goto-instrument --replace-calls)
 * input:            N (shape) arbitrary payload bytes in the send buffer (incl. 0xFE/0xFD anywhere and payloads whose
 *                   CRC needs escaping)
 * oracle:           exactly one packet delivered, its length is N and every byte equals the payload (arbitrary index)
 */
#include "verif.h"
#include "src/transmission/bidib_transmission_send.c"
#include "src/transmission/bidib_transmission_receive.c"

#ifndef N
#define N 3
#endif
#define WIRE_MAX (2 * N + 8)

volatile bool bidib_running, bidib_discard_rx, bidib_lowlevel_debug_mode;
pthread_rwlock_t bidib_trains_rwlock, bidib_boards_rwlock;
pthread_mutex_t trackstate_accessories_mutex, trackstate_peripherals_mutex, trackstate_segments_mutex,
	trackstate_reversers_mutex, trackstate_trains_mutex, trackstate_boosters_mutex,
	trackstate_track_outputs_mutex;
const char *const bidib_message_string_mapping[0x100];

static uint8_t wire[WIRE_MAX];
static int wire_n, rd_pos;
static void wr(uint8_t *b, int32_t len) {
	for (int32_t i = 0; i < WIRE_MAX; i++) if (i < len && wire_n < WIRE_MAX) wire[wire_n++] = b[i];
}
static uint8_t rd(int *ok) {
	*ok = 1;
	if (rd_pos >= wire_n) { bidib_running = false; return 0; }
	return wire[rd_pos++];
}
static int sp_calls; static size_t sp_len, sp_k; static int sp_at = -1;
void verif_split_stub(const uint8_t *const buf, size_t size) {
	if (sp_calls == 0) { sp_len = size; if (sp_k < size) sp_at = buf[sp_k]; }
	sp_calls++;
}

void harness(void) {
	uint8_t p[N];
	for (int i = 0; i < N; i++) { p[i] = ND_u8("payload"); buffer[i] = p[i]; }
	buffer_index = N;
	write_bytes = wr; read_byte = rd;
	sp_k = ND_u8("K"); VASSUME(sp_k < N);
	pthread_mutex_lock(&bidib_send_buffer_mutex);
	bidib_flush_impl();
	pthread_mutex_unlock(&bidib_send_buffer_mutex);
	bidib_running = true; bidib_discard_rx = false;
	bidib_receive_first_pkt_magic();
	bidib_receive_packet();
	int want = -1;
	for (int i = 0; i < N; i++) if ((size_t)i == sp_k) want = p[i];
	VASSERT(sp_calls == 1, "the packet the sender emitted is accepted by the receiver (CRC incl. an escaped CRC byte)");
	VASSERT(sp_len == N, "with its full payload");
	VASSERT(sp_at == want, "byte for byte");
	VWITNESS();
}
