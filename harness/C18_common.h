/* C18: common part of the generated per-function harnesses (queries/C18.py).
 * real code: all src/lowlevel/*.c, bidib_transmission_send.c (bidib_buffer_message_with/without_data),
 *            bidib_transmission_util.c
 * stubs:     bidib_node_try_send = capture; sequence number = 7; optimistic state updates = no-op
 * Every send function is called TWICE with identical arguments: CBMC gives uninitialised stack bytes a fresh
 * nondeterministic value per call, so a message byte that depends on uninitialised memory differs between the
 * two captures for some model ("determinate encoding").
 */
#ifndef C18_COMMON_H
#define C18_COMMON_H
#include "verif.h"
#include "ref_bidib.h"
#include <stdlib.h>
#include <pthread.h>
#include "include/bidib.h"

volatile bool bidib_running;
pthread_rwlock_t bidib_trains_rwlock, bidib_boards_rwlock;
pthread_mutex_t trackstate_accessories_mutex, trackstate_peripherals_mutex, trackstate_segments_mutex,
	trackstate_reversers_mutex, trackstate_trains_mutex, trackstate_boosters_mutex,
	trackstate_track_outputs_mutex, bidib_node_state_table_mutex;
const char *const bidib_message_string_mapping[0x100];
void bidib_state_cs_drive(t_bidib_cs_drive_mod p) { (void)p; }
void bidib_state_cs_accessory(t_bidib_node_address n, t_bidib_cs_accessory_mod p) { (void)n; (void)p; }

#define CAP_MAX 136
static int cap_run;
static int cap_n[2];
static uint8_t cap[2][CAP_MAX];
static uint8_t cap_type[2], cap_addr[2][4];
static bool cap_overlong;
bool bidib_node_try_send(const uint8_t *const a, uint8_t t, const uint8_t *const m, unsigned int id) {
	(void)id;
	int r = cap_run;
	cap_n[r]++;
	cap_type[r] = t;
	for (int i = 0; i < 4; i++) cap_addr[r][i] = a[i];
	if ((size_t)m[0] + 1 > CAP_MAX) cap_overlong = true;
	for (size_t i = 0; i < CAP_MAX; i++) if (i <= m[0]) cap[r][i] = m[i];
	return false;
}
uint8_t bidib_node_state_get_and_incr_send_seqnum(const uint8_t *const a) { (void)a; return 7; }

static int c18_pos, c18_depth;
static void c18_begin(const uint8_t *na, uint8_t type, bool valid, bool valid_known) {
	VASSERT(cap_n[0] <= 1, "at most one message is submitted");
	VASSERT(cap_n[1] == cap_n[0], "same arguments, same decision");
	if (valid_known) VASSERT((cap_n[0] == 1) == valid, "rejected (nothing submitted) iff a parameter is outside its documented range");
	if (cap_n[0] != 1) return;
	uint8_t eff[4] = {0, 0, 0, 0};
	c18_depth = na[0] == 0 ? 0 : na[1] == 0 ? 1 : na[2] == 0 ? 2 : 3;
	for (int i = 0; i < 3; i++) if (i < c18_depth) eff[i] = na[i];
	VASSERT(type < 0x80 && cap_type[0] == type, "downlink type code of this function");
	VASSERT(cap_addr[0][0] == eff[0] && cap_addr[0][1] == eff[1] && cap_addr[0][2] == eff[2] && cap_addr[0][3] == 0, "destination = the node address given");
	VASSERT(!cap_overlong && cap[0][0] <= 127, "length byte never exceeds the protocol maximum of 127");
	for (int i = 0; i < 3; i++) if (i < c18_depth) VASSERT(cap[0][1 + i] == na[i], "address stack in the message");
	VASSERT(cap[0][1 + c18_depth] == 0, "address terminator");
	VASSERT(cap[0][2 + c18_depth] == 7, "sequence number");
	VASSERT(cap[0][3 + c18_depth] == type, "type byte");
	c18_pos = 4 + c18_depth;
}
static void c18_data(uint8_t expect) {
	VASSERT(c18_pos < CAP_MAX && cap[0][c18_pos < CAP_MAX ? c18_pos : 0] == expect, "data byte = specified encoding of the arguments");
	c18_pos++;
}
static void c18_end(void) {
	VASSERT(cap[0][0] + 1 == c18_pos, "message length = header + exactly the specified data bytes");
	bool same = true;
	for (int i = 0; i < CAP_MAX; i++) if (i <= cap[0][0] && cap[0][i] != cap[1][i]) same = false;
	VASSERT(same, "every message byte is determined by the arguments (no uninitialised memory)");
}
#endif
