/* C11: lock balance and global lock order on the entry points that the other harnesses do not drive.
 *   (C09/C17/C07/C08/C06/C01/C03/C04/C05 harnesses all end with "every lock released and no acquisition against the
 *    global order" for their entry points; queries/C11.py re-runs them under this property.)
 *
 * MODE 0  configuration-time bidib_state_add_* functions with arbitrary (also duplicate) ids / addresses
 * MODE 1  admin commands (ping, identify, version queries) through the REAL send path: lowlevel ->
 *         bidib_buffer_message -> bidib_node_try_send (node table) -> bidib_add_to_buffer (send buffer)
 * MODE 2  the REAL dispatcher bidib_handle_received_message with the REAL state setters, mirror / ack senders
 *         and the real send path, for one message of arbitrary type (normal and debug mode)
 * MODE 3  bidib_flush, bidib_read_message / _error_message, bidib_node_state_update (receiver side)
 * lock monitor: env/pthread_model.c (balance, self-deadlock, global order ranks)
 * stub:   bidib_flush_impl -> asserts the send-buffer mutex is held
 */
#define SB_SEG_ADDRS 1
#include "verif.h"
#include "state_builder.h"
#include "include/bidib.h"
#include "src/state/bidib_state_intern.h"
#include "src/state/bidib_state_setter_intern.h"
#include "src/transmission/bidib_transmission_intern.h"

#ifndef MODE
#define MODE 0
#endif
#ifndef WHICH
#define WHICH 0
#endif

volatile bool bidib_running, bidib_discard_rx, bidib_lowlevel_debug_mode;
pthread_rwlock_t bidib_trains_rwlock, bidib_boards_rwlock;
pthread_mutex_t trackstate_accessories_mutex, trackstate_peripherals_mutex, trackstate_segments_mutex,
	trackstate_reversers_mutex, trackstate_trains_mutex, trackstate_boosters_mutex,
	trackstate_track_outputs_mutex;

static bool flush_locked = true;
void verif_flush_stub(void) { if (!verif_held_w(L_SEND_BUFFER)) flush_locked = false; }

static void sym_id(char *d) { d[0] = (char)ND_u8("id0"); d[1] = (char)ND_u8("id1"); d[2] = 0; if (d[0] == 0) d[1] = 0; }

void harness(void) {
	sb_build();
#if MODE != 0
	bidib_node_state_table_init();
#endif
	char a[3]; sym_id(a);
	verif_locks_reset();
#if MODE == 0
	t_bidib_dcc_address da = {ND_u8("al"), ND_u8("ah"), 0};
#if WHICH == 0
	{ t_bidib_board b = sb_empty_board("zz"); g_string_free(b.id, TRUE); b.id = g_string_new(a);
	  b.unique_id.product_id4 = ND_u8("pid4_again");
	  bool dup = bidib_state_add_board(b); (void)dup; }
#elif WHICH == 1
	{ t_bidib_train t = sb_train("zz", 0); g_string_free(t.id, TRUE); t.id = g_string_new(a); t.dcc_addr = da;
	  bool dup = bidib_state_add_train(t); (void)dup; }
#elif WHICH == 2
	{ t_bidib_board_accessory_state s = sb_board_acc_state("zz", "n", "r"); free(s.id); s.id = sb_str(a);
	  bool dup = ND_bool("signal") ? bidib_state_add_board_signal_state(s) : bidib_state_add_board_point_state(s); (void)dup; }
#elif WHICH == 3
	{ t_bidib_dcc_accessory_state s = sb_dcc_acc_state("zz", "n", "r"); free(s.id); s.id = sb_str(a);
	  bool dup = bidib_state_add_dcc_point_state(s, da); (void)dup; }
#elif WHICH == 4
	{ t_bidib_dcc_accessory_state s = sb_dcc_acc_state("zz", "n", "r"); free(s.id); s.id = sb_str(a);
	  bool dup = bidib_state_add_dcc_signal_state(s, da); (void)dup; }
#elif WHICH == 5
	{ t_bidib_peripheral_state s; s.id = sb_str(a); s.data.state_id = NULL; s.data.state_value = 0; s.data.time_unit = 0; s.data.wait = 0;
	  bool dup = bidib_state_add_peripheral_state(s); (void)dup;
	  t_bidib_reverser_state r; r.id = sb_str(a); r.data.state_id = NULL; r.data.state_value = 0;
	  dup = bidib_state_add_reverser_state(r); (void)dup; }
#elif WHICH == 6
	{ t_bidib_segment_state_intern s = sb_segment_state("zz"); g_string_free(s.id, TRUE); s.id = g_string_new(a);
	  bool dup = bidib_state_add_segment_state(s); (void)dup;
	  t_bidib_train_state_intern ts = sb_train_state("zz", 0); g_string_free(ts.id, TRUE); ts.id = g_string_new(a);
	  bidib_state_add_train_state(ts);
	  t_bidib_booster_state bs; bs.id = sb_str(a); bidib_state_add_booster(bs);
	  t_bidib_track_output_state os; os.id = sb_str(a); os.cs_state = 0; bidib_state_add_track_output(os); }
#endif
#elif MODE == 1
	uint8_t x = ND_u8("x");
#if WHICH == 0
	bidib_ping(a, x);
#elif WHICH == 1
	bidib_identify(a, x);
#elif WHICH == 2
	bidib_get_protocol_version(a);
#else
	bidib_get_software_version(a);
#endif
#elif MODE == 2
	bidib_set_read_src(NULL);
	bidib_lowlevel_debug_mode = ND_bool("debug");
	uint8_t *msg = malloc(13);
	uint8_t addr[4] = {0, 0, 0, 0};
	uint8_t type = ND_u8("type");
#ifdef TYPE_LO
	VASSUME(type >= TYPE_LO && type <= TYPE_HI);
#endif
	msg[0] = 12; msg[1] = 0; msg[2] = ND_u8("seq"); msg[3] = type;
	for (int i = 4; i < 13; i++) msg[i] = ND_u8("data");
	bidib_handle_received_message(msg, type, addr, msg[2], ND_u8("aid"));
#else
	bidib_set_read_src(NULL);
	uint8_t addr[4] = {ND_u8("n0"), 0, 0, 0};
	bidib_flush();
	uint8_t *m = bidib_read_message(); if (m) free(m);
	m = bidib_read_error_message(); if (m) free(m);
	m = bidib_read_intern_message(); if (m) free(m);
	bidib_node_state_update(addr, ND_u8("resp"));
	bidib_node_update_stall(addr, ND_u8("stall"));
	bidib_state_packet_capacity(ND_u8("cap"));
#endif
	VASSERT(verif_lock_errors == 0, "no unlock of an unheld lock, no relock of a held mutex, no read->write upgrade");
	VASSERT(verif_order_errors == 0, "every nested acquisition follows the global lock order");
	VASSERT(verif_all_free(), "every lock released on return");
	VASSERT(flush_locked, "flush only with the send-buffer mutex held");
	VWITNESS();
}
