/* C06-H2: the user queues are FIFO, bounded by 128, drop the oldest on overflow, return each entry once.
 *
 * unit (real code): src/transmission/bidib_transmission_receive.c (included): bidib_message_queue_add via the
 *                   real dispatcher (debug mode -> message queue; MSG_SYS_ERROR in normal mode -> error queue),
 *                   bidib_read_message / bidib_read_error_message, queue reset/free
 * pre-state:        queue pre-filled with FILL (shape: 0, 1, 126, 127, 128) entries (tickets 0..FILL-1)
 * step:             ADDS (1..3) further messages through the real code, then everything is read back
 */
#include "verif.h"
#include "verif_glib.h"
#include "src/transmission/bidib_transmission_receive.c"

#ifndef FILL
#define FILL 127
#endif
#ifndef ADDS
#define ADDS 2
#endif
#ifndef ERRQ
#define ERRQ 0
#endif
#define BOUND QUEUE_SIZE   /* the bound of the included source (128; scaled copies: 2..4) */
#ifndef READS
#define READS 4
#endif

volatile bool bidib_running, bidib_discard_rx, bidib_lowlevel_debug_mode, bidib_seq_num_enabled;
pthread_rwlock_t bidib_trains_rwlock, bidib_boards_rwlock;
pthread_mutex_t trackstate_accessories_mutex, trackstate_peripherals_mutex, trackstate_segments_mutex,
	trackstate_reversers_mutex, trackstate_trains_mutex, trackstate_boosters_mutex,
	trackstate_track_outputs_mutex;
t_bidib_board *bidib_state_get_board_ref_by_nodeaddr(t_bidib_node_address n) { (void)n; return NULL; }

static uint8_t *mk(unsigned ticket, uint8_t type, uint8_t payload) {
	uint8_t *m = malloc(7);
	m[0] = 6; m[1] = 0; m[2] = (uint8_t)(ticket & 0xff); m[3] = type; m[4] = (uint8_t)(ticket >> 8); m[5] = payload; m[6] = 0;
	return m;
}

void harness(void) {
	bidib_set_read_src(NULL);
	GQueue *q = ERRQ ? uplink_error_queue : uplink_queue;
	uint8_t addr[4] = {0, 0, 0, 0};
	for (unsigned i = 0; i < FILL; i++) {
		t_bidib_message_queue_entry *e = malloc(sizeof *e);
		e->type = MSG_SYS_PONG; e->message = mk(i, MSG_SYS_PONG, 0); e->action_id = 0;
		e->addr[0] = e->addr[1] = e->addr[2] = e->addr[3] = 0;
		g_queue_push_tail(q, e);
	}
	verif_queue_tag(uplink_queue, L_UPLINK); verif_queue_tag(uplink_error_queue, L_UPLINK_ERR); verif_queue_tag(uplink_intern_queue, L_UPLINK_INTERN);
	bidib_lowlevel_debug_mode = !ERRQ;
	uint8_t pay[ADDS];
	uint8_t *added[ADDS];
	for (unsigned k = 0; k < ADDS; k++) {
		pay[k] = ND_u8("payload");
		uint8_t type = ERRQ ? MSG_SYS_ERROR : MSG_SYS_PONG;   /* routing of all types is C06-H1 */
		added[k] = mk(FILL + k, type, pay[k]);
		verif_tags_armed = true;
		bidib_handle_received_message(added[k], type, addr, 1, 0);
		verif_tags_armed = false;
		VASSERT(g_queue_get_length(q) <= BOUND, "a queue never holds more than 128 entries");
	}
	unsigned total = FILL + ADDS;
	unsigned expect_len = total > BOUND ? BOUND : total;
	unsigned first = total - expect_len;             /* ticket of the oldest survivor */
	VASSERT(g_queue_get_length(q) == expect_len, "length = min(old + added, 128): the oldest entries are discarded on overflow");
	/* content: the survivors are the newest entries in arrival order (model accessor, no library call) */
	for (unsigned i = 0; i < BOUND; i++) {
		if (i >= expect_len) continue;
#ifdef ENDS_ONLY
		if (i != 0 && i != expect_len - 1) continue;   /* literal 128: only the oldest and the newest survivor */
#endif
		t_bidib_message_queue_entry *e = verif_queue_nth(q, i);
		unsigned ticket = e->message[2] | ((unsigned)e->message[4] << 8);
		VASSERT(ticket == first + i, "queue holds the newest entries in arrival order; the discarded ones were the oldest");
	}
	/* read back through the real API: oldest first, each once, caller owns the buffer */
	for (unsigned i = 0; i < READS; i++) {
		verif_tags_armed = true;
		uint8_t *m = ERRQ ? bidib_read_error_message() : bidib_read_message();
		verif_tags_armed = false;
		if (i < expect_len) {
			VASSERT(m != NULL, "every queued message is returned");
			if (m != NULL) {
				unsigned ticket = m[2] | ((unsigned)m[4] << 8);
				VASSERT(ticket == first + i, "messages are returned oldest first");
				if (ticket >= FILL && ticket < FILL + ADDS) {
					VASSERT(m == added[ticket - FILL] && m[5] == pay[ticket - FILL], "the returned buffer is the received one, bytes unchanged");
				}
				free(m);
			}
			VASSERT(g_queue_get_length(q) == expect_len - i - 1, "a returned message has left the queue (returned at most once)");
		} else {
			VASSERT(m == NULL, "an empty queue returns NULL; nothing is returned twice");
		}
	}
	VASSERT(verif_all_free(), "locks released");
#ifndef ENDS_ONLY
	bidib_running = false;
	bidib_uplink_queue_free(); bidib_uplink_error_queue_free(); bidib_uplink_intern_queue_free();
#endif
	VWITNESS();
}
