/* State builder shared by the C07/C08/C09/C10/C11/C17/C19 harnesses.
 *
 * Builds, with the library's own array layout (GArray of the real struct types, heap strings owned by the
 * state as bidib_state_free expects), a small configuration whose STRUCTURE is concrete and whose scalar
 * contents are symbolic:
 *
 *   board b1 (unique id, connected flag, node address, secack, class bits all symbolic)
 *       points_board  p1 (number, aspects n/r with values)      points_dcc   pd (dcc addr, ext flag, aspects n/r
 *       signals_board s1 (number, aspects go/st)                              each with one port/value pair)
 *       signals_dcc   sd                                        peripherals  l1 (number, port, aspects on/of)
 *       segments      g1, g2 (addr)                             reversers    r1 (cv "4")
 *   board b2 (optional, SB_B2): segments g3, points_board p2
 *   trains t1 (dcc addr, speed steps, calibration NULL or 9 values, peripherals hd/cb with bits), t2 (SB_T2)
 *   track state: one entry per configured entity with ARBITRARY field values (any history), segments with 0..2
 *       listed dcc addresses each; booster / track output entries for b1 (ids are board ids) when SB_BOOSTER /
 *       SB_TRACK_OUTPUT (presence symbolic)
 *
 * Uniqueness invariants that the parser establishes (C14) are assumed: distinct numbers/ports/addresses per board,
 * distinct aspect values per accessory, distinct train addresses / function bits, distinct board addresses.
 */
#ifndef STATE_BUILDER_H
#define STATE_BUILDER_H
#include <glib.h>
#include <stdlib.h>
#include <string.h>
#include "verif.h"
#include "src/state/bidib_state_intern.h"

static char *sb_str(const char *s) { size_t n = strlen(s); char *d = malloc(n + 1); for (size_t i = 0; i <= n; i++) d[i] = s[i]; return d; }
/* state_id of an accessory/peripheral/reverser: NULL (unknown) or one of its aspect ids */
static char *sb_state_id(const char *a, const char *b) {
	uint8_t c = ND_u8("state_id_choice");
	if (c == 0) return NULL;
	return sb_str(c == 1 ? a : b);
}
/* Arrays are created over a TYPED heap block (malloc(sizeof(T) * n): CBMC gives the object the element type) and
 * filled by typed struct assignment, so that symbolic execution keeps configuration constants and pointers
 * field-sensitive; the library reads them through the real g_array_index macro. */
#ifndef SB_CAP
#define SB_CAP 4
#endif
GArray *verif_garray_wrap(void *data, guint esize, guint cap);
#define SB_NEW(type) verif_garray_wrap(malloc(sizeof(type) * SB_CAP), sizeof(type), SB_CAP)
#define SB_NEWN(type, n) verif_garray_wrap(malloc(sizeof(type) * (n)), sizeof(type), (n))
#define SB_PUSH(arr, type, val) (((type *)(void *)(arr)->data)[(arr)->len++] = (val))

#ifndef SB_SEG_ADDRS
#define SB_SEG_ADDRS 2
#endif
typedef struct {
	t_bidib_board *b1, *b2;
	t_bidib_train *t1, *t2;
	bool has_booster, has_track_output;
} sb_world;
static sb_world sbw;

static t_bidib_board sb_empty_board(const char *id) {
	t_bidib_board b;
	b.id = g_string_new(id);
	b.unique_id.class_id = ND_u8("class_id"); b.unique_id.class_id_ext = ND_u8("class_id_ext");
	b.unique_id.vendor_id = ND_u8("vendor_id"); b.unique_id.product_id1 = ND_u8("pid1");
	b.unique_id.product_id2 = ND_u8("pid2"); b.unique_id.product_id3 = ND_u8("pid3"); b.unique_id.product_id4 = ND_u8("pid4");
	b.connected = ND_bool("connected");
	b.node_addr.top = ND_u8("na_top"); b.node_addr.sub = ND_u8("na_sub"); b.node_addr.subsub = ND_u8("na_subsub");
	b.secack_on = ND_bool("secack_on");
	b.features = SB_NEW(t_bidib_board_feature);
	b.points_board = SB_NEW(t_bidib_board_accessory_mapping);
	b.points_dcc = SB_NEW(t_bidib_dcc_accessory_mapping);
	b.signals_board = SB_NEW(t_bidib_board_accessory_mapping);
	b.signals_dcc = SB_NEW(t_bidib_dcc_accessory_mapping);
	b.peripherals = SB_NEW(t_bidib_peripheral_mapping);
	b.segments = SB_NEW(t_bidib_segment_mapping);
	b.reversers = SB_NEW(t_bidib_reverser_mapping);
	return b;
}
static GArray *sb_aspects2(const char *a, const char *b, uint8_t *va, uint8_t *vb) {
	GArray *arr = SB_NEW(t_bidib_aspect);
	t_bidib_aspect x; x.id = g_string_new(a); x.value = ND_u8("aspect_val"); SB_PUSH(arr, t_bidib_aspect, x);
	t_bidib_aspect y; y.id = g_string_new(b); y.value = ND_u8("aspect_val"); SB_PUSH(arr, t_bidib_aspect, y);
	VASSUME(x.value != y.value);
	if (va) *va = x.value;
	if (vb) *vb = y.value;
	return arr;
}
static t_bidib_board_accessory_mapping sb_board_acc(const char *id, const char *a, const char *b) {
	t_bidib_board_accessory_mapping m;
	m.id = g_string_new(id); m.number = ND_u8("acc_number"); m.aspects = sb_aspects2(a, b, NULL, NULL);
	return m;
}
static t_bidib_board_accessory_state sb_board_acc_state(const char *id, const char *a, const char *b) {
	t_bidib_board_accessory_state s;
	s.id = sb_str(id); s.data.state_id = sb_state_id(a, b); s.data.state_value = ND_u8("state_value");
	s.data.execution_state = (t_bidib_accessory_execution_state)ND_u8("exec_state"); s.data.wait_details = ND_u8("wait");
	return s;
}
static t_bidib_dcc_accessory_mapping sb_dcc_acc(const char *id, const char *a, const char *b) {
	t_bidib_dcc_accessory_mapping m;
	m.id = g_string_new(id);
	m.dcc_addr.addrl = ND_u8("dcc_addrl"); m.dcc_addr.addrh = ND_u8("dcc_addrh"); m.dcc_addr.type = 0;
	m.extended_accessory = ND_u8("ext_acc"); VASSUME(m.extended_accessory <= 1);
	m.aspects = SB_NEW(t_bidib_dcc_aspect);
	const char *ids[2] = {a, b};
	for (int i = 0; i < 2; i++) {
		t_bidib_dcc_aspect da; da.id = g_string_new(ids[i]); da.port_values = SB_NEW(t_bidib_dcc_aspect_port_value);
		t_bidib_dcc_aspect_port_value pv; pv.port = ND_u8("dcc_port"); pv.value = ND_u8("dcc_value");
		SB_PUSH(da.port_values, t_bidib_dcc_aspect_port_value, pv);
		SB_PUSH(m.aspects, t_bidib_dcc_aspect, da);
	}
	return m;
}
static t_bidib_dcc_accessory_state sb_dcc_acc_state(const char *id, const char *a, const char *b) {
	t_bidib_dcc_accessory_state s;
	s.id = sb_str(id); s.data.state_id = sb_state_id(a, b); s.data.state_value = ND_u8("state_value");
	s.data.coil_on = ND_bool("coil_on"); s.data.output_controls_timing = ND_bool("oct");
	s.data.ack = (t_bidib_cs_ack)ND_u8("ack"); s.data.time_unit = (t_bidib_time_unit)ND_u8("time_unit");
	s.data.switch_time = ND_u8("switch_time");
	return s;
}
static t_bidib_segment_state_intern sb_segment_state(const char *id) {
	t_bidib_segment_state_intern s;
	s.id = g_string_new(id); s.length = g_string_new("1");
	s.occupied = ND_bool("occupied");
	s.confidence.conf_void = ND_bool("conf_void"); s.confidence.freeze = ND_bool("freeze"); s.confidence.nosignal = ND_bool("nosignal");
	s.power_consumption.known = ND_bool("pc_known"); s.power_consumption.overcurrent = ND_bool("pc_over");
	s.power_consumption.current = ND_u16("pc_current");
	s.dcc_addresses = SB_NEW(t_bidib_dcc_address);
	uint8_t n = ND_u8("seg_addr_cnt"); VASSUME(n <= SB_SEG_ADDRS);
	for (int i = 0; i < SB_SEG_ADDRS; i++) {
		if (i >= n) continue;
		t_bidib_dcc_address a; a.addrl = ND_u8("seg_addrl"); a.addrh = ND_u8("seg_addrh"); a.type = ND_u8("seg_addrtype");
		VASSUME(a.addrh <= 0x3F && a.type <= 3);
		/* INV: a segment lists a decoder once (an address report names each detected decoder once; C08 harness assumes the same of reports) */
		if (i > 0) { t_bidib_dcc_address *p0 = &g_array_index(s.dcc_addresses, t_bidib_dcc_address, 0); VASSUME(p0->addrl != a.addrl || p0->addrh != a.addrh); }
		SB_PUSH(s.dcc_addresses, t_bidib_dcc_address, a);
	}
	return s;
}
static t_bidib_train sb_train(const char *id, int nper) {
	t_bidib_train t;
	t.id = g_string_new(id);
	t.dcc_addr.addrl = ND_u8("train_addrl"); t.dcc_addr.addrh = ND_u8("train_addrh"); t.dcc_addr.type = 0;
	VASSUME(t.dcc_addr.addrh <= 0x3F);
	t.dcc_speed_steps = ND_u8("speed_steps");
	VASSUME(t.dcc_speed_steps == 14 || t.dcc_speed_steps == 28 || t.dcc_speed_steps == 126);
	t.calibration = NULL;
	if (ND_bool("calibrated")) {
		t.calibration = SB_NEWN(int, 9);
		for (int i = 0; i < 9; i++) { int v = ND_u8("calib"); VASSUME(v <= 126); SB_PUSH(t.calibration, int, v); }
	}
	t.peripherals = SB_NEW(t_bidib_train_peripheral_mapping);
	static const char *pid[2] = {"hd", "cb"};
	uint8_t prev = 255;
	for (int i = 0; i < nper; i++) {
		t_bidib_train_peripheral_mapping m; m.id = g_string_new(pid[i]);
#ifdef SB_FBIT0
		m.bit = i == 0 ? SB_FBIT0 : SB_FBIT1;          /* shape: concrete function bits */
#else
		m.bit = ND_u8("fbit");
#endif
		VASSUME(m.bit <= 31 && m.bit != prev);
		prev = m.bit;
		SB_PUSH(t.peripherals, t_bidib_train_peripheral_mapping, m);
	}
	return t;
}
static t_bidib_train_state_intern sb_train_state(const char *id, int nper) {
	t_bidib_train_state_intern s;
	s.id = g_string_new(id);
	s.on_track = ND_bool("on_track"); s.orientation = (t_bidib_train_orientation)ND_bool("orientation");
	s.set_speed_step = (int)ND_u8("set_speed"); VASSUME(s.set_speed_step <= 126);
	s.set_is_forwards = ND_bool("set_fwd");
	s.ack = (t_bidib_cs_ack)ND_u8("train_ack"); s.detected_kmh_speed = ND_u16("kmh");
	s.peripherals = SB_NEW(t_bidib_train_peripheral_state);
	static const char *pid[2] = {"hd", "cb"};
	for (int i = 0; i < nper; i++) {
		t_bidib_train_peripheral_state p; p.id = sb_str(pid[i]); p.state = ND_u8("fstate"); VASSUME(p.state <= 1);
		SB_PUSH(s.peripherals, t_bidib_train_peripheral_state, p);
	}
	s.decoder_state.signal_quality_known = ND_bool("dk1"); s.decoder_state.signal_quality = ND_u8("dv1");
	s.decoder_state.temp_known = ND_bool("dk2"); s.decoder_state.temp_celsius = (int8_t)ND_u8("dv2");
	s.decoder_state.energy_storage_known = ND_bool("dk3"); s.decoder_state.energy_storage = ND_u8("dv3");
	s.decoder_state.container2_storage_known = ND_bool("dk4"); s.decoder_state.container2_storage = ND_u8("dv4");
	s.decoder_state.container3_storage_known = ND_bool("dk5"); s.decoder_state.container3_storage = ND_u8("dv5");
	return s;
}

static void sb_init_arrays(void) {
	bidib_initial_values.points = SB_NEW(t_bidib_state_initial_value);
	bidib_initial_values.signals = SB_NEW(t_bidib_state_initial_value);
	bidib_initial_values.peripherals = SB_NEW(t_bidib_state_initial_value);
	bidib_initial_values.trains = SB_NEW(t_bidib_state_train_initial_value);
	bidib_track_state.points_board = SB_NEW(t_bidib_board_accessory_state);
	bidib_track_state.points_dcc = SB_NEW(t_bidib_dcc_accessory_state);
	bidib_track_state.signals_board = SB_NEW(t_bidib_board_accessory_state);
	bidib_track_state.signals_dcc = SB_NEW(t_bidib_dcc_accessory_state);
	bidib_track_state.peripherals = SB_NEW(t_bidib_peripheral_state);
	bidib_track_state.reversers = SB_NEW(t_bidib_reverser_state);
	bidib_track_state.segments = SB_NEW(t_bidib_segment_state_intern);
	bidib_track_state.trains = SB_NEW(t_bidib_train_state_intern);
	bidib_track_state.boosters = SB_NEW(t_bidib_booster_state);
	bidib_track_state.track_outputs = SB_NEW(t_bidib_track_output_state);
	bidib_boards = SB_NEW(t_bidib_board);
	bidib_trains = SB_NEW(t_bidib_train);
}

/* what to build (each harness selects what it needs, everything else stays an empty array) */
#ifndef SB_POINTS_BOARD
#define SB_POINTS_BOARD 1
#endif
#ifndef SB_POINTS_DCC
#define SB_POINTS_DCC 1
#endif
#ifndef SB_SIGNALS
#define SB_SIGNALS 1
#endif
#ifndef SB_PERIPHERALS
#define SB_PERIPHERALS 1
#endif
#ifndef SB_SEGMENTS
#define SB_SEGMENTS 2
#endif
#ifndef SB_REVERSERS
#define SB_REVERSERS 1
#endif
#ifndef SB_B2
#define SB_B2 0
#endif
#ifndef SB_TRAINS
#define SB_TRAINS 1
#endif
#ifndef SB_TRAIN_PERIPHERALS
#define SB_TRAIN_PERIPHERALS 2
#endif
#ifndef SB_BOOSTER
#define SB_BOOSTER 1
#endif
#ifndef SB_TRACK_OUTPUT
#define SB_TRACK_OUTPUT 1
#endif

static void sb_build(void) {
	sb_init_arrays();
	t_bidib_board b1 = sb_empty_board("b1");
#if SB_POINTS_BOARD
	{ t_bidib_board_accessory_mapping m = sb_board_acc("p1", "n", "r"); SB_PUSH(b1.points_board, t_bidib_board_accessory_mapping, m);
	  t_bidib_board_accessory_state s = sb_board_acc_state("p1", "n", "r"); SB_PUSH(bidib_track_state.points_board, t_bidib_board_accessory_state, s); }
#endif
#if SB_POINTS_DCC
	{ t_bidib_dcc_accessory_mapping m = sb_dcc_acc("pd", "n", "r"); SB_PUSH(b1.points_dcc, t_bidib_dcc_accessory_mapping, m);
	  t_bidib_dcc_accessory_state s = sb_dcc_acc_state("pd", "n", "r"); SB_PUSH(bidib_track_state.points_dcc, t_bidib_dcc_accessory_state, s); }
#endif
#if SB_SIGNALS
	{ t_bidib_board_accessory_mapping m = sb_board_acc("s1", "go", "st");
#if SB_POINTS_BOARD
	  VASSUME(m.number != g_array_index(b1.points_board, t_bidib_board_accessory_mapping, 0).number);
#endif
	  SB_PUSH(b1.signals_board, t_bidib_board_accessory_mapping, m);
	  t_bidib_board_accessory_state s = sb_board_acc_state("s1", "go", "st"); SB_PUSH(bidib_track_state.signals_board, t_bidib_board_accessory_state, s); }
	{ t_bidib_dcc_accessory_mapping m = sb_dcc_acc("sd", "go", "st");
#if SB_POINTS_DCC
	  t_bidib_dcc_accessory_mapping *o = &g_array_index(b1.points_dcc, t_bidib_dcc_accessory_mapping, 0);
	  VASSUME(m.dcc_addr.addrl != o->dcc_addr.addrl || m.dcc_addr.addrh != o->dcc_addr.addrh);
#endif
	  SB_PUSH(b1.signals_dcc, t_bidib_dcc_accessory_mapping, m);
	  t_bidib_dcc_accessory_state s = sb_dcc_acc_state("sd", "go", "st"); SB_PUSH(bidib_track_state.signals_dcc, t_bidib_dcc_accessory_state, s); }
#endif
#if SB_PERIPHERALS
	{ t_bidib_peripheral_mapping m; m.id = g_string_new("l1"); m.number = ND_u8("per_number");
	  m.port.port0 = ND_u8("port0"); m.port.port1 = ND_u8("port1"); m.aspects = sb_aspects2("on", "of", NULL, NULL);
	  SB_PUSH(b1.peripherals, t_bidib_peripheral_mapping, m);
	  t_bidib_peripheral_state s; s.id = sb_str("l1"); s.data.state_id = sb_state_id("on", "of"); s.data.state_value = ND_u8("state_value");
	  s.data.time_unit = (t_bidib_time_unit)ND_u8("time_unit"); s.data.wait = ND_u8("wait");
	  SB_PUSH(bidib_track_state.peripherals, t_bidib_peripheral_state, s); }
#endif
#if SB_SEGMENTS >= 1
	{ t_bidib_segment_mapping m; m.id = g_string_new("g1"); m.addr = ND_u8("seg_addr"); SB_PUSH(b1.segments, t_bidib_segment_mapping, m);
	  t_bidib_segment_state_intern s = sb_segment_state("g1"); SB_PUSH(bidib_track_state.segments, t_bidib_segment_state_intern, s); }
#endif
#if SB_SEGMENTS >= 2
	{ t_bidib_segment_mapping m; m.id = g_string_new("g2"); m.addr = ND_u8("seg_addr");
	  VASSUME(m.addr != g_array_index(b1.segments, t_bidib_segment_mapping, 0).addr);
	  SB_PUSH(b1.segments, t_bidib_segment_mapping, m);
	  t_bidib_segment_state_intern s = sb_segment_state("g2"); SB_PUSH(bidib_track_state.segments, t_bidib_segment_state_intern, s); }
#endif
#if SB_REVERSERS
	{ t_bidib_reverser_mapping m; m.id = g_string_new("r1"); m.cv = g_string_new("4"); SB_PUSH(b1.reversers, t_bidib_reverser_mapping, m);
	  t_bidib_reverser_state s; s.id = sb_str("r1"); s.data.state_id = ND_bool("rev_known") ? sb_str("r1") : NULL;
	  s.data.state_value = (t_bidib_reverser_execution_state)ND_u8("rev_state"); VASSUME(s.data.state_value <= 2);
	  SB_PUSH(bidib_track_state.reversers, t_bidib_reverser_state, s); }
#endif
	SB_PUSH(bidib_boards, t_bidib_board, b1);
	sbw.b1 = &g_array_index(bidib_boards, t_bidib_board, 0);
#if SB_B2
	{ t_bidib_board b2 = sb_empty_board("b2");
	  VASSUME(b2.unique_id.product_id4 != b1.unique_id.product_id4);
	  VASSUME(b2.node_addr.top != b1.node_addr.top || b2.node_addr.sub != b1.node_addr.sub || b2.node_addr.subsub != b1.node_addr.subsub);
	  t_bidib_segment_mapping m; m.id = g_string_new("g3"); m.addr = ND_u8("seg_addr"); SB_PUSH(b2.segments, t_bidib_segment_mapping, m);
	  t_bidib_segment_state_intern s = sb_segment_state("g3"); SB_PUSH(bidib_track_state.segments, t_bidib_segment_state_intern, s);
	  SB_PUSH(bidib_boards, t_bidib_board, b2);
	  sbw.b1 = &g_array_index(bidib_boards, t_bidib_board, 0);
	  sbw.b2 = &g_array_index(bidib_boards, t_bidib_board, 1); }
#endif
#if SB_BOOSTER
	sbw.has_booster = ND_bool("has_booster");
	if (sbw.has_booster) {
		t_bidib_booster_state s; s.id = sb_str("b1");
		s.data.power_state = (t_bidib_booster_power_state)ND_u8("bst_power"); s.data.power_state_simple = (t_bidib_booster_power_state_simple)ND_u8("bst_simple");
		VASSUME(s.data.power_state_simple <= 2);
		s.data.power_consumption.known = ND_bool("bst_pc_known"); s.data.power_consumption.overcurrent = ND_bool("bst_pc_over");
		s.data.power_consumption.current = ND_u16("bst_pc_current");
		s.data.voltage_known = ND_bool("bst_vk"); s.data.voltage = ND_u8("bst_v");
		s.data.temp_known = ND_bool("bst_tk"); s.data.temp_celsius = (int8_t)ND_u8("bst_t");
		SB_PUSH(bidib_track_state.boosters, t_bidib_booster_state, s);
	}
#endif
#if SB_TRACK_OUTPUT
#if defined(SB_TRACK_OUTPUT2) && SB_B2
	/* a second track output (board b2) listed BEFORE b1's */
	{ t_bidib_track_output_state s2; s2.id = sb_str("b2"); s2.cs_state = (t_bidib_cs_state)ND_u8("cs_state2");
	  SB_PUSH(bidib_track_state.track_outputs, t_bidib_track_output_state, s2); }
#endif
	sbw.has_track_output = ND_bool("has_track_output");
	if (sbw.has_track_output) {
		t_bidib_track_output_state s; s.id = sb_str("b1"); s.cs_state = (t_bidib_cs_state)ND_u8("cs_state");
		SB_PUSH(bidib_track_state.track_outputs, t_bidib_track_output_state, s);
	}
#endif
#if SB_TRAINS >= 1
	{ t_bidib_train t = sb_train("t1", SB_TRAIN_PERIPHERALS); SB_PUSH(bidib_trains, t_bidib_train, t);
	  t_bidib_train_state_intern s = sb_train_state("t1", SB_TRAIN_PERIPHERALS); SB_PUSH(bidib_track_state.trains, t_bidib_train_state_intern, s); }
#endif
#if SB_TRAINS >= 2
	{ t_bidib_train t = sb_train("t2", 0);
	  t_bidib_train *o = &g_array_index(bidib_trains, t_bidib_train, 0);
	  VASSUME(t.dcc_addr.addrl != o->dcc_addr.addrl || t.dcc_addr.addrh != o->dcc_addr.addrh);
	  SB_PUSH(bidib_trains, t_bidib_train, t);
	  t_bidib_train_state_intern s = sb_train_state("t2", 0); SB_PUSH(bidib_track_state.trains, t_bidib_train_state_intern, s); }
#endif
#if SB_TRAINS >= 1
	sbw.t1 = &g_array_index(bidib_trains, t_bidib_train, 0);
#endif
#if SB_TRAINS >= 2
	sbw.t2 = &g_array_index(bidib_trains, t_bidib_train, 1);
#endif
}
#endif
