/* C04-H1: one step of the stall machine from an arbitrary valid forest state.
 *
 * unit (real code): src/transmission/bidib_transmission_node_states.c (included: statics),
 *                   src/transmission/bidib_transmission_responses.c
 * stubs:            bidib_add_to_buffer -> wire log, bidib_flush -> counter
 * pre-state:        NN (4) arbitrary pairwise distinct node addresses of depth 1..3 plus the root
 *                   interface 0.0.0.0 (so every tree shape over 4 nodes: chains, siblings, unrelated),
 *                   each present/absent in the node table, arbitrary stall flags, 0..MAXH held
 *                   messages, 0..1 outstanding request, arbitrary waiter registrations,
 *                   constrained only by the representation invariant INV (below).
 * STEP 0 = bidib_node_try_send, 1 = bidib_node_update_stall, 2 = bidib_node_state_update,
 *        all on a solver-chosen node with solver-chosen arguments.
 *
 * INV (i)   a node that is not stalled has no registered waiters
 *     (ii)  a waiter is registered only with itself or one of its ancestors
 *     (iii) a node with held messages is registered with some stalled ancestor-or-self, or its
 *           oldest held message does not fit the response budget
 *     (iv)  budget counter == sum of outstanding sizes <= 48
 */
#include "verif.h"
#include "verif_glib.h"
#include "src/transmission/bidib_transmission_node_states.c"

#ifndef STEP
#define STEP 1
#endif
#ifndef MAXH
#define MAXH 2
#endif
#ifndef NN
#define NN 3          /* number of nodes incl. the root interface 0.0.0.0 at index NN-1 */
#endif
#ifndef SHAPE
#define SHAPE 0
#endif
/* concrete tree shapes (zero pattern of the address stacks).  Byte values are the concrete ones
 * below unless -DSYMADDR (then every non-zero byte is symbolic).
 * NN==3: 0: a, a.b   1: a, e   2: a.b, a.b.c   3: a, a.b.c   4: a.b, a.d      (+ root)
 * NN==4: 0: a, a.b, a.b.c   1: a, a.b, a.d   2: a, a.b, e   3: a.b, a.b.c, a.b.d   4: a, a.b.c, a.d  (+ root) */
#if NN == 3
#if SHAPE == 0
static const uint8_t ADDR[NN][3] = {{1,0,0},{1,2,0},{0,0,0}};
#elif SHAPE == 1
static const uint8_t ADDR[NN][3] = {{1,0,0},{5,0,0},{0,0,0}};
#elif SHAPE == 2
static const uint8_t ADDR[NN][3] = {{1,2,0},{1,2,3},{0,0,0}};
#elif SHAPE == 3
static const uint8_t ADDR[NN][3] = {{1,0,0},{1,2,3},{0,0,0}};
#else
static const uint8_t ADDR[NN][3] = {{1,2,0},{1,4,0},{0,0,0}};
#endif
#else
#if SHAPE == 0
static const uint8_t ADDR[NN][3] = {{1,0,0},{1,2,0},{1,2,3},{0,0,0}};
#elif SHAPE == 1
static const uint8_t ADDR[NN][3] = {{1,0,0},{1,2,0},{1,4,0},{0,0,0}};
#elif SHAPE == 2
static const uint8_t ADDR[NN][3] = {{1,0,0},{1,2,0},{5,0,0},{0,0,0}};
#elif SHAPE == 3
static const uint8_t ADDR[NN][3] = {{1,2,0},{1,2,3},{1,2,4},{0,0,0}};
#else
static const uint8_t ADDR[NN][3] = {{1,0,0},{1,2,3},{1,4,0},{0,0,0}};
#endif
#endif
static int depth_of_const(int k) { return ADDR[k][0] == 0 ? 0 : ADDR[k][1] == 0 ? 1 : ADDR[k][2] == 0 ? 2 : 3; }
#define DEPTHK(k) depth_of_const(k)
#define LIMIT 48
#ifndef EXISTS_ALL
#define EXISTS_ALL 1
#endif

#define WIRE_MAX 6
static uint8_t wire_ticket[WIRE_MAX];
static int wire_n;
static int flush_n;
void bidib_add_to_buffer(const uint8_t *const message) {
	VASSUME(wire_n < WIRE_MAX);
	wire_ticket[wire_n] = message[2]; /* harness messages: {3, 0, ticket, type} */
	wire_n++;
}
void bidib_flush(void) { flush_n++; }

/* STEP 4: bidib_node_try_queued_messages is replaced (goto-instrument --replace-calls) by this
 * recording stub; its real body is verified as its own unit in STEP 3 */
#define TQ_MAX 6
static t_bidib_node_state *tq_arg[TQ_MAX];
static int tq_n;
static bool tq_lock_ok = true;
void verif_stub_try_queued(t_bidib_node_state *state) {
	VASSUME(tq_n < TQ_MAX);
	if (!verif_held_w(L_NODE_TABLE)) tq_lock_ok = false;
	tq_arg[tq_n++] = state;
}

static int size_of(uint8_t t) { return bidib_response_info[t][1]; }
static bool answers(uint8_t req, uint8_t resp) {
	for (int i = 2; i <= 4; i++) {
		if (i <= bidib_response_info[req][0] && bidib_response_info[req][i] == resp) return true;
	}
	return false;
}

static uint8_t A[NN][4];
static int depth_of(int k) { return depth_of_const(k); }
/* s is n itself or an ancestor of n (reference, written from the BiDiB address-stack rules) */
static bool anc_or_self(int s, int n) {
	int ds = depth_of(s), dn = depth_of(n);
	if (ds > dn) return false;
	for (int i = 0; i < 3; i++) {
		if (i < ds && A[s][i] != A[n][i]) return false;
	}
	return true;
}
static bool same_addr(const uint8_t *x, const uint8_t *y) {
	return x[0] == y[0] && x[1] == y[1] && x[2] == y[2] && x[3] == y[3];
}

void harness(void) {
	bool exists[NN], stall[NN], w[NN][NN];
	int hn[NN], sum[NN], nresp[NN];
	uint8_t htype[NN][MAXH + 1], rtype[NN];
	long rtime[NN];
	t_bidib_node_state *st[NN];

	verif_now = ND_u8("now");
	VASSUME(verif_now <= 20);
	for (int k = 0; k < NN - 1; k++) {
		for (int i = 0; i < 4; i++) {
			A[k][i] = 0;
#ifdef SYMADDR
			if (i < DEPTHK(k)) { A[k][i] = ND_u8("addr"); VASSUME(A[k][i] != 0); }
#else
			if (i < DEPTHK(k)) A[k][i] = ADDR[k][i];
#endif
		}
		for (int j = 0; j < k; j++) VASSUME(!same_addr(A[k], A[j]));
	}
	A[NN - 1][0] = A[NN - 1][1] = A[NN - 1][2] = A[NN - 1][3] = 0;

	bidib_node_state_table_init();
	for (int k = 0; k < NN; k++) {
		exists[k] = EXISTS_ALL ? true : ND_bool("exists");
		stall[k] = false; hn[k] = 0; sum[k] = 0; nresp[k] = 0; st[k] = NULL;
		rtype[k] = 0; rtime[k] = 0;
		for (int n = 0; n < NN; n++) w[k][n] = false;
		if (!exists[k]) continue;
		st[k] = bidib_node_query(A[k]);
		stall[k] = ND_bool("stall");
		st[k]->stall = stall[k];
		if (ND_bool("has_resp")) {
			rtype[k] = ND_u8("rtype"); VASSUME(rtype[k] < 0x80 && size_of(rtype[k]) > 0);
			rtime[k] = ND_u8("rtime"); VASSUME(rtime[k] <= verif_now);
			t_bidib_response_queue_entry *e = malloc(sizeof *e);
			e->type = rtype[k]; e->creation_time = rtime[k]; e->action_id = 7;
			g_queue_push_tail(st[k]->response_queue, e);
			nresp[k] = 1; sum[k] = size_of(rtype[k]);
		}
		st[k]->current_max_respond = sum[k];
		int want = ND_u8("nheld"); VASSUME(want <= MAXH);
		for (int i = 0; i < MAXH; i++) {
			if (i >= want) continue;
			htype[k][i] = ND_u8("htype"); VASSUME(htype[k][i] < 0x80);
			t_bidib_message_queue_entry *m = malloc(sizeof *m);
			m->type = htype[k][i]; memcpy(m->addr, A[k], 4);
			m->message = malloc(4);
			m->message[0] = 3; m->message[1] = 0; m->message[2] = (uint8_t)(16 * k + i + 1);
			m->message[3] = htype[k][i];
			m->action_id = 0;
			g_queue_push_tail(st[k]->message_queue, m);
			hn[k]++;
		}
	}
	/* waiter registrations */
	for (int s = 0; s < NN; s++) {
		for (int n = 0; n < NN; n++) {
			if (!exists[s] || !exists[n]) continue;
			if (!ND_bool("w")) continue;
			VASSUME(stall[s]);               /* INV (i)  */
			VASSUME(anc_or_self(s, n));      /* INV (ii) */
			t_bidib_stall_queue_entry *e = malloc(sizeof *e);
			memcpy(e->addr, A[n], 4);
			g_queue_push_tail(st[s]->stall_affected_nodes_queue, e);
			w[s][n] = true;
		}
	}
	int tgt = ND_u8("target"); VASSUME(tgt < NN);
	for (int n = 0; n < NN; n++) {           /* INV (iii) */
		if (hn[n] == 0) continue;
#if STEP == 3
		if (n == tgt) continue;              /* try_queued is what (re-)establishes INV (iii) for its node */
#endif
		bool reg = false;
		for (int s = 0; s < NN; s++) if (w[s][n]) reg = true;
		VASSUME(reg || sum[n] + size_of(htype[n][0]) > LIMIT);
	}

	/* ---- one step ---- */
	bool pre_blocked[NN];
	for (int n = 0; n < NN; n++) {
		pre_blocked[n] = false;
		for (int s = 0; s < NN; s++) if (stall[s] && anc_or_self(s, n)) pre_blocked[n] = true;
	}
	int freed = 0;
	bool direct_sent = false;
	uint8_t newtype = 0;
#if STEP == 0
	newtype = ND_u8("type"); VASSUME(newtype < 0x80);
	uint8_t msg[4] = {3, 0, 255, newtype};
	verif_tags_armed = true;
	bool admitted = bidib_node_try_send(A[tgt], newtype, msg, 1);
	verif_tags_armed = false;
	bool expect = !pre_blocked[tgt] && hn[tgt] == 0 && sum[tgt] + size_of(newtype) <= LIMIT;
	VASSERT(admitted == expect, "admitted iff no ancestor-or-self is stalled, nothing is held and the budget has room");
	VASSERT(wire_n == 0, "try_send itself puts nothing on the wire");
	direct_sent = admitted;
#elif STEP == 1 || STEP == 4
	uint8_t status = ND_u8("stall_status");
	verif_tags_armed = true;
	bidib_node_update_stall(A[tgt], status);
	verif_tags_armed = false;
	stall[tgt] = status != 0;
	if (status != 0) VASSERT(wire_n == 0, "a stall notice releases nothing");
#elif STEP == 3
	VASSUME(exists[tgt]);
	pthread_mutex_lock(&bidib_node_state_table_mutex);   /* documented calling context */
	verif_tags_armed = true;
	bidib_node_try_queued_messages(st[tgt]);
	verif_tags_armed = false;
	pthread_mutex_unlock(&bidib_node_state_table_mutex);
#else
	uint8_t resp = ND_u8("resp");
	verif_tags_armed = true;
	bidib_node_state_update(A[tgt], resp);
	verif_tags_armed = false;
	if (nresp[tgt] == 1 && (answers(rtype[tgt], resp) || verif_now - rtime[tgt] >= 2)) freed = 1;
#endif
	if (st[tgt] == NULL) st[tgt] = g_hash_table_lookup(node_state_table, A[tgt]);

	/* ---- post-conditions ---- */
	bool blocked[NN];
	for (int n = 0; n < NN; n++) {
		blocked[n] = false;
		for (int s = 0; s < NN; s++) if (stall[s] && anc_or_self(s, n)) blocked[n] = true;
	}
	/* wire: per node, the held messages leave oldest first, once, and only to unblocked nodes */
	int sent[NN];
	for (int n = 0; n < NN; n++) sent[n] = 0;
	for (int i = 0; i < WIRE_MAX; i++) {
		if (i >= wire_n) continue;
		int n = (wire_ticket[i] - 1) / 16, idx = (wire_ticket[i] - 1) % 16;
		VASSERT(n >= 0 && n < NN, "only held messages are released");
		if (n >= 0 && n < NN) {
			VASSERT(idx == sent[n], "held messages reach the wire in per-node submission order, each once");
			VASSERT(idx < hn[n], "no message invented");
			VASSERT(!blocked[n], "nothing reaches the wire for a node with a stalled ancestor-or-self");
			sent[n]++;
		}
	}
#if STEP == 1 || STEP == 4
	if (status != 0) { for (int n = 0; n < NN; n++) VASSERT(sent[n] == 0, "stall releases nothing"); }
#endif
#if STEP == 3
	for (int n = 0; n < NN; n++) if (n != tgt) VASSERT(sent[n] == 0, "try_queued releases only its own node's messages");
#endif
#if STEP == 4
	/* contract of update_stall around the (stubbed) retry: on unstall every registered waiter that is
	 * still in the node table is retried exactly once, in registration order, under the table mutex,
	 * and the waiter list is emptied; a stall notice retries nobody */
	VASSERT(tq_lock_ok, "retries run with the node-table mutex held");
	if (status != 0) {
		VASSERT(tq_n == 0, "a stall notice retries nobody");
	} else {
		int want = 0;
		for (int n = 0; n < NN; n++) {
			if (!w[tgt][n]) continue;
			VASSERT(want < tq_n && tq_arg[want < TQ_MAX ? want : 0] == st[n], "every waiter is retried once, in registration order");
			want++;
		}
		VASSERT(tq_n == want, "nobody else is retried");
		if (st[tgt] != NULL) VASSERT(g_queue_get_length(st[tgt]->stall_affected_nodes_queue) == 0, "waiter list emptied");
	}
#endif
	for (int n = 0; n < NN; n++) {
		if (st[n] == NULL) continue;
		int held_now = (int)g_queue_get_length(st[n]->message_queue);
		int expect_held = hn[n] - sent[n];
#if STEP == 0
		if (n == tgt && !direct_sent) expect_held++;
#endif
		VASSERT(held_now == expect_held, "held queue = old queue minus released prefix (plus the deferred new message)");
		int b = sum[n];
		if (n == tgt && freed) b -= size_of(rtype[n]);
		for (int i = 0; i < MAXH; i++) if (i < sent[n]) b += size_of(htype[n][i]);
		if (n == tgt && direct_sent) b += size_of(newtype);
		VASSERT(st[n]->current_max_respond == b, "budget counter follows releases and answers");
		VASSERT(st[n]->current_max_respond <= LIMIT, "budget never exceeds 48");
		VASSERT(st[n]->stall == stall[n], "stall flag changes only for the reporting node");
		/* INV (i),(ii) again */
		int wl = (int)g_queue_get_length(st[n]->stall_affected_nodes_queue);
		VASSERT(stall[n] || wl == 0, "INV: a node that is not stalled has no waiters");
		/* INV (iii) again: still-held => registered with a stalled ancestor-or-self, or does not fit */
		if (held_now > 0 && STEP != 4) {
			bool reg = false;
			for (int s = 0; s < NN; s++) {
				if (st[s] == NULL || !stall[s] || !anc_or_self(s, n)) continue;
				int l = (int)g_queue_get_length(st[s]->stall_affected_nodes_queue);
				for (int i = 0; i < VERIF_QCAP_H; i++) {
					if (i >= l) continue;
					t_bidib_stall_queue_entry *e = verif_queue_nth(st[s]->stall_affected_nodes_queue, i);
					if (same_addr(e->addr, A[n])) reg = true;
				}
			}
			uint8_t head_t;
			if (sent[n] < hn[n]) { head_t = 0; for (int i = 0; i < MAXH; i++) if (i == sent[n]) head_t = htype[n][i]; }
			else head_t = newtype;
			bool fits = st[n]->current_max_respond + size_of(head_t) <= LIMIT;
			VASSERT(reg || !fits, "INV: held => registered with a stalled ancestor-or-self or over budget (re-registration after unstall)");
			VASSERT(blocked[n] || !fits, "not stranded: once no ancestor-or-self is stalled and the budget has room, the oldest held message is on the wire");
		}
	}
	VASSERT(wire_n == 0 || flush_n > 0, "released messages are flushed");
	VASSERT(verif_all_free(), "all locks released");
	VWITNESS();
}
