/* C19: every occupancy report of a SecAck board is mirrored exactly once, with the same detector number and
 * payload, and flushed in the same dispatcher call; boards without the feature are never sent mirrors.
 *
 * unit (real code): src/transmission/bidib_transmission_receive.c (bidib_handle_received_message),
 *                   src/lowlevel/bidib_lowlevel_occupancy.c (mirror encoders + range checks),
 *                   bidib_transmission_send.c (bidib_buffer_message_with_data, bidib_flush), bidib_transmission_util.c,
 *                   bidib_state_getter.c (sender lookup by node address)
 * stubs:            bidib_state_bm_occ / bidib_state_bm_multiple -> no-op (C08); bidib_node_try_send -> capture,
 *                   admits or defers (solver's choice: budget exhausted / stalled node = "defer", C03/C04 deliver
 *                   it later exactly once); bidib_flush_impl -> counter asserting the mutex
 * world:            boards b1, b2 with arbitrary connected / secack / node address; report from an arbitrary node
 * REPORT:           0 OCC  1 FREE  2 MULTIPLE (SIZE bits, shape)  3 POSITION
 */
#define SB_B2 1
#define SB_TRAINS 0
#define SB_POINTS_BOARD 0
#define SB_POINTS_DCC 0
#define SB_SIGNALS 0
#define SB_PERIPHERALS 0
#define SB_REVERSERS 0
#define SB_BOOSTER 0
#define SB_TRACK_OUTPUT 0
#define SB_SEGMENTS 1
#define SB_SEG_ADDRS 0
#include "verif.h"
#include "ref_bidib.h"
#include "state_builder.h"
#include "include/bidib.h"
#include "src/transmission/bidib_transmission_intern.h"

#ifndef REPORT
#define REPORT 0
#endif
#ifndef SIZE
#define SIZE 8
#endif

volatile bool bidib_running, bidib_discard_rx, bidib_lowlevel_debug_mode;
pthread_rwlock_t bidib_trains_rwlock, bidib_boards_rwlock;
pthread_mutex_t trackstate_accessories_mutex, trackstate_peripherals_mutex, trackstate_segments_mutex,
	trackstate_reversers_mutex, trackstate_trains_mutex, trackstate_boosters_mutex,
	trackstate_track_outputs_mutex;
void bidib_handle_received_message(uint8_t *message, uint8_t type, const uint8_t *const addr_stack, uint8_t seqnum, unsigned int action_id);

static int occ_calls;
void bidib_state_bm_occ(t_bidib_node_address n, uint8_t num, bool occ) { (void)n; (void)num; (void)occ; occ_calls++; }
void bidib_state_bm_multiple(t_bidib_node_address n, uint8_t num, uint8_t size, const uint8_t *const d) { (void)n; (void)num; (void)size; (void)d; occ_calls++; }

#define CAP_LEN 28
static int cap_n, flush_n, flush_after_cap;
static uint8_t cap[CAP_LEN], cap_type, cap_addr[4];
static bool flush_locked = true;
bool bidib_node_try_send(const uint8_t *const a, uint8_t t, const uint8_t *const m, unsigned int id) {
	(void)id;
	cap_n++; cap_type = t;
	for (int i = 0; i < 4; i++) cap_addr[i] = a[i];
	for (size_t i = 0; i < CAP_LEN; i++) cap[i] = (i <= m[0]) ? m[i] : 0;
	return ND_bool("admitted");
}
uint8_t bidib_node_state_get_and_incr_send_seqnum(const uint8_t *const a) { (void)a; return 7; }
void verif_flush_stub(void) { if (!verif_held_w(L_SEND_BUFFER)) flush_locked = false; flush_n++; if (cap_n > 0) flush_after_cap++; }

void harness(void) {
	sb_build();
	bidib_set_read_src(NULL);
	bidib_lowlevel_debug_mode = false;
	t_bidib_board *bd[2] = {sbw.b1, sbw.b2};
	uint8_t addr[4] = {ND_u8("n0"), ND_u8("n1"), ND_u8("n2"), 0};
	VASSUME(addr[0] != 0 || (addr[1] == 0 && addr[2] == 0)); VASSUME(addr[1] != 0 || addr[2] == 0);
	int depth = ref_addr_depth(addr);
	t_bidib_board *sender = NULL;
	for (int b = 0; b < 2; b++) {
		if (sender == NULL && bd[b]->connected && bd[b]->node_addr.top == addr[0] && bd[b]->node_addr.sub == addr[1] && bd[b]->node_addr.subsub == addr[2]) sender = bd[b];
	}
#if REPORT == 0 || REPORT == 1
	const int dl = 1; const uint8_t type = REPORT == 0 ? MSG_BM_OCC : MSG_BM_FREE; const uint8_t mtype = REPORT == 0 ? MSG_BM_MIRROR_OCC : MSG_BM_MIRROR_FREE;
#elif REPORT == 2
	const int dl = 2 + SIZE / 8; const uint8_t type = MSG_BM_MULTIPLE; const uint8_t mtype = MSG_BM_MIRROR_MULTIPLE;
#else
	const int dl = 5; const uint8_t type = MSG_BM_POSITION; const uint8_t mtype = MSG_BM_MIRROR_POSITION;
#endif
	size_t total = 1 + depth + 3 + dl;
	uint8_t *msg = malloc(total);
	uint8_t d[24];
	msg[0] = (uint8_t)(total - 1);
	for (int i = 0; i < 3; i++) if (i < depth) msg[1 + i] = addr[i];
	msg[1 + depth] = 0; msg[2 + depth] = ND_u8("seq"); msg[3 + depth] = type;
	for (int i = 0; i < dl; i++) { d[i] = ND_u8("data"); msg[4 + depth + i] = d[i]; }
#if REPORT == 2
	d[1] = SIZE; msg[4 + depth + 1] = SIZE;
	VASSUME(d[0] % 8 == 0);                  /* base detector number of a multiple report is a multiple of 8 */
#endif
	bidib_handle_received_message(msg, type, addr, msg[2 + depth], 0);

	bool want = sender != NULL && sender->secack_on;
	VASSERT(cap_n == (want ? 1 : 0), "exactly one mirror for a report of a connected SecAck board, none for any other sender");
	if (want && cap_n == 1) {
		VASSERT(cap_type == mtype, "mirror message type of the report type");
		VASSERT(cap_addr[0] == addr[0] && cap_addr[1] == addr[1] && cap_addr[2] == addr[2] && cap_addr[3] == 0, "mirror goes to the reporting board");
		VASSERT(cap[0] == depth + 3 + dl, "mirror carries as many data bytes as the report");
		bool same = true;
		for (int i = 0; i < 24; i++) if (i < dl && cap[4 + depth + i] != d[i]) same = false;
		VASSERT(same, "mirror carries the same detector number and payload as the report");
		VASSERT(flush_after_cap >= 1, "mirror is flushed in the same dispatcher call (no manual / timed flush needed)");
	}
	VASSERT(flush_locked, "flush with the send-buffer mutex held");
	VASSERT(verif_all_free(), "all locks released");
#ifdef WITNESS
	VASSUME(want);
#endif
	VWITNESS();
}
