/* model accessors over glib containers (CBMC: env/glib_model.c, native: env/native_support.c) */
#ifndef VERIF_GLIB_H
#define VERIF_GLIB_H
#include <glib.h>
gpointer verif_queue_nth(GQueue *queue, guint n);
void verif_queue_tag(GQueue *queue, int lock);   /* CBMC model only */
#endif
