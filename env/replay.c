/* native replay support: feeds the recorded nondeterministic choices back */
#ifdef VERIF_REPLAY
#include <stdio.h>
#include <stdlib.h>
#include <string.h>
static FILE *vf;
long verif_replay_next(const char *fn, const char *label) {
	if (!vf) {
		const char *p = getenv("VERIF_VALUES");
		vf = fopen(p ? p : "values.txt", "r");
		if (!vf) { fprintf(stderr, "REPLAY: cannot open values file\n"); exit(3); }
	}
	char name[64]; long v;
	if (fscanf(vf, "%63s %ld", name, &v) != 2) {
		/* trace exhausted: choices after the failing point are irrelevant */
		return 0;
	}
	if (strcmp(name, fn) != 0) {
		fprintf(stderr, "REPLAY: choice order mismatch at %s (%s): file has %s\n", fn, label, name);
		exit(4);
	}
	return v;
}
void verif_replay_fail(const char *kind, const char *text, const char *file, int line) {
	if (strcmp(kind, "ASSUME") == 0) {
		fprintf(stderr, "REPLAY-ASSUME-VIOLATED %s (%s:%d)\n", text, file, line);
		exit(5);
	}
	fprintf(stderr, "REPLAY-VIOLATION %s (%s:%d)\n", text, file, line);
	exit(1);
}
#endif
