/* stand-in for syslog_libbidib when src/highlevel/bidib_highlevel_util.c is not linked.
 * Arguments at the call sites are still evaluated by the caller (so x->id->str with a
 * NULL id is still a dereference failure there). */
void syslog_libbidib(int priority, const char *format, ...) { (void)priority; (void)format; }
