/* Native replay support (only compiled with -DVERIF_REPLAY): main(), harness clock,
 * model accessors implemented over the REAL glib, weak definitions of the library's lock
 * objects for harnesses that do not link the translation unit defining them. */
#ifdef VERIF_REPLAY
#include <glib.h>
#include <pthread.h>
#include <time.h>
#include <stdio.h>
#include "verif.h"
#include "verif_glib.h"

long verif_now;
time_t time(time_t *t) { if (t) *t = verif_now; return verif_now; }
int clock_gettime(clockid_t c, struct timespec *ts) { (void)c; ts->tv_sec = verif_now; ts->tv_nsec = 0; return 0; }
int usleep(unsigned int us) { (void)us; return 0; }

gpointer verif_queue_nth(GQueue *queue, guint n) { return g_queue_peek_nth(queue, n); }

#define WEAKLOCK(t, n) t n __attribute__((weak))
WEAKLOCK(pthread_rwlock_t, bidib_trains_rwlock);
WEAKLOCK(pthread_rwlock_t, bidib_boards_rwlock);
WEAKLOCK(pthread_mutex_t, trackstate_accessories_mutex);
WEAKLOCK(pthread_mutex_t, trackstate_peripherals_mutex);
WEAKLOCK(pthread_mutex_t, trackstate_segments_mutex);
WEAKLOCK(pthread_mutex_t, trackstate_reversers_mutex);
WEAKLOCK(pthread_mutex_t, trackstate_trains_mutex);
WEAKLOCK(pthread_mutex_t, trackstate_boosters_mutex);
WEAKLOCK(pthread_mutex_t, trackstate_track_outputs_mutex);
WEAKLOCK(pthread_mutex_t, bidib_node_state_table_mutex);
WEAKLOCK(pthread_mutex_t, bidib_send_buffer_mutex);
WEAKLOCK(pthread_mutex_t, bidib_uplink_queue_mutex);
WEAKLOCK(pthread_mutex_t, bidib_uplink_error_queue_mutex);
WEAKLOCK(pthread_mutex_t, bidib_uplink_intern_queue_mutex);
WEAKLOCK(pthread_mutex_t, bidib_action_id_mutex);

__attribute__((weak)) void syslog_libbidib(int priority, const char *format, ...) { (void)priority; (void)format; }

void harness(void);
int main(void) {
	harness();
	fprintf(stderr, "REPLAY-END: harness completed without violation\n");
	return 0;
}
#endif
