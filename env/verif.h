/* verif.h -- common macros for CBMC harnesses and their native replays.
 *
 * CBMC build:    ND_*(label) returns a fresh nondeterministic value (one call of
 *                nondet_*() inside a function named ND_*, so the runner can read the
 *                sequence of choices back from the JSON trace).
 * Replay build:  (-DVERIF_REPLAY) ND_* reads the next value from $VERIF_VALUES.
 *
 * VASSERT(cond,"text")  property assertion. In the witness twin (-DWITNESS) it becomes an
 *                       assumption, so the twin's final WITNESS assertion is only reachable
 *                       by executions that satisfy every property assertion.
 * VASSUME(cond)         harness precondition (part of the claim; listed in evidence).
 * VWITNESS()            vacuity guard: must be reachable in the twin.
 */
#ifndef VERIF_H
#define VERIF_H
#include <stdint.h>
#include <stddef.h>
#include <stdbool.h>

#ifdef VERIF_REPLAY
#include <stdio.h>
#include <stdlib.h>
long verif_replay_next(const char *fn, const char *label);
void verif_replay_fail(const char *kind, const char *text, const char *file, int line);
#define ND_u8(l)   ((uint8_t)verif_replay_next("ND_u8", l))
#define ND_u16(l)  ((uint16_t)verif_replay_next("ND_u16", l))
#define ND_u32(l)  ((uint32_t)verif_replay_next("ND_u32", l))
#define ND_int(l)  ((int)verif_replay_next("ND_int", l))
#define ND_bool(l) ((bool)(verif_replay_next("ND_bool", l) != 0))
#define VASSERT(c, t) do { if (!(c)) verif_replay_fail("ASSERT", t, __FILE__, __LINE__); } while (0)
#define VASSUME(c) do { if (!(c)) verif_replay_fail("ASSUME", #c, __FILE__, __LINE__); } while (0)
#define VWITNESS() do { } while (0)
#define __CPROVER_assume(c) VASSUME(c)
#define __CPROVER_assert(c, t) VASSERT(c, t)
#else
uint8_t ND_u8(const char *label);
uint16_t ND_u16(const char *label);
uint32_t ND_u32(const char *label);
int ND_int(const char *label);
bool ND_bool(const char *label);
#ifdef WITNESS
#define VASSERT(c, t) __CPROVER_assume(c)
#define VWITNESS() __CPROVER_assert(0, "WITNESS")
#else
#define VASSERT(c, t) __CPROVER_assert((c), "PROP: " t)
#define VWITNESS() do { } while (0)
#endif
#define VASSUME(c) __CPROVER_assume(c)
#endif

/* ---- lock monitor (env/pthread_model.c) ---- */
enum verif_lock_id {
	L_TRAINS_RW = 0, L_BOARDS_RW, L_ACCESSORIES, L_PERIPHERALS, L_SEGMENTS, L_REVERSERS,
	L_TS_TRAINS, L_BOOSTERS, L_TRACK_OUTPUTS, L_NODE_TABLE, L_SEND_BUFFER, L_UPLINK,
	L_UPLINK_ERR, L_UPLINK_INTERN, L_ACTION_ID, L_OTHER, L_COUNT
};
extern int verif_rd[L_COUNT];      /* read holds (rwlocks) */
extern int verif_wr[L_COUNT];      /* write / mutex hold */
extern bool verif_edge[L_COUNT][L_COUNT]; /* [held][acquired] */
extern int verif_lock_errors;      /* unlock-unheld, relock, rd->wr upgrade, ... */
extern int verif_order_errors;     /* acquisitions against the global lock order */
extern int verif_recursive_reads;  /* rdlock of an rwlock already read-held by the thread */
extern unsigned verif_acq_count[L_COUNT];
extern unsigned verif_rel_count[L_COUNT];
bool verif_all_free(void);
unsigned verif_max_acq(void);      /* largest number of acquisitions of one lock since verif_locks_reset() */
extern bool verif_tags_armed;      /* glib model: container lock tags are checked only while armed (VERIF_LOCK_TAGS) */
bool verif_held(int id);           /* any hold */
bool verif_held_w(int id);         /* write/mutex hold */
void verif_rmw_mark(void); void verif_rmw_check(void); void verif_rmw_reset(void);   /* read-modify-write atomicity (pthread_model.c) */
void verif_locks_reset(void);
/* schedule hook: called by the pthread model *before* acquiring lock id (if -DVERIF_YIELD) */
void verif_yield(int id);

/* ---- thread handle monitor ---- */
#define VERIF_MAX_THREADS 12
extern int verif_threads_created;
extern int verif_threads_joined;
extern int verif_thread_errors;    /* join of a non-live handle */
extern void *(*verif_thread_entry[VERIF_MAX_THREADS])(void *);
extern void *verif_thread_arg[VERIF_MAX_THREADS];
extern int verif_thread_state[VERIF_MAX_THREADS]; /* 0 unused, 1 live, 2 joined */

/* ---- clock ---- */
extern long verif_now;             /* seconds; harness advances it */

#endif
