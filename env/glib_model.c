/* glib subset used by libbidib, modelled over the REAL glib headers (struct layouts,
 * macros such as g_array_index / g_array_append_val are the real ones).
 *
 * GArray     fixed capacity VERIF_GARRAY_CAP elements (growth beyond is assumed away: stated bound)
 * GString    malloc'ed NUL-terminated copy; g_string_printf leaves a short arbitrary string
 * GQueue     array-backed FIFO, capacity VERIF_QCAP (assumed bound)
 * GHashTable VERIF_HCAP slots; key equality through the user's equal function (g_str_equal
 *            = strcmp on the key bytes, exactly what the library configures)
 */
#include <glib.h>
#include <stdlib.h>
#include <string.h>
#include "verif.h"
#include "verif_glib.h"

#ifndef VERIF_GARRAY_CAP
#define VERIF_GARRAY_CAP 4
#endif
#ifndef VERIF_GARRAY_SPLIT
#define VERIF_GARRAY_SPLIT 4
#endif
#ifndef VERIF_QCAP
#define VERIF_QCAP 4
#endif
#ifndef VERIF_HCAP
#define VERIF_HCAP 4
#endif
#ifndef VERIF_PRINTF_MAX
#define VERIF_PRINTF_MAX 2
#endif

/* ---------------- GArray ---------------- */
typedef struct {
	GArray pub;        /* data, len */
	guint esize;
	guint cap;
} VArray;

GArray *g_array_sized_new(gboolean zero_terminated, gboolean clear_, guint element_size,
                          guint reserved_size) {
	(void)zero_terminated; (void)clear_;
	VArray *a = malloc(sizeof(VArray));
	guint cap = reserved_size > VERIF_GARRAY_CAP ? reserved_size : VERIF_GARRAY_CAP;
	a->pub.data = malloc((size_t)cap * element_size);
	a->pub.len = 0;
	a->esize = element_size;
	a->cap = cap;
	return &a->pub;
}
GArray *g_array_new(gboolean zero_terminated, gboolean clear_, guint element_size) {
	return g_array_sized_new(zero_terminated, clear_, element_size, 0);
}
GArray *g_array_append_vals(GArray *array, gconstpointer data, guint len) {
	VArray *a = (VArray *)array;
	__CPROVER_assume(a->pub.len + len <= a->cap); /* bound: list capacity */
	const unsigned char *src = data;
	size_t n = (size_t)len * a->esize;
	/* case split on the (possibly symbolic) current length so that every copy goes to a concrete offset */
	for (guint k = 0; k < VERIF_GARRAY_SPLIT; k++) {
		if (a->pub.len == k) {
			unsigned char *dst = (unsigned char *)a->pub.data + (size_t)k * a->esize;
#ifdef VERIF_GARRAY_REPLACE
			/* g_array_append_val (one element): whole-object copy primitive instead of a byte loop, so that the
			 * element's fields (pointers, lengths) stay field-sensitive for symbolic execution */
			if (len == 1) { __CPROVER_array_replace(dst, src); a->pub.len += 1; return array; }
#endif
			for (size_t i = 0; i < n; i++) dst[i] = src[i];
			a->pub.len += len;
			return array;
		}
	}
	unsigned char *dst = (unsigned char *)a->pub.data + (size_t)a->pub.len * a->esize;
#ifdef VERIF_GARRAY_REPLACE
	if (len == 1) { __CPROVER_array_replace(dst, src); a->pub.len += 1; return array; }
#endif
	for (size_t i = 0; i < n; i++) dst[i] = src[i];
	a->pub.len += len;
	return array;
}
GArray *g_array_remove_range(GArray *array, guint index_, guint length) {
	VArray *a = (VArray *)array;
	__CPROVER_assert(index_ + length <= a->pub.len, "GLIB: g_array_remove_range within len");
	if (index_ + length == a->pub.len) {   /* removing a tail (incl. "clear"): nothing moves */
		a->pub.len -= length;
		return array;
	}
	unsigned char *d = (unsigned char *)a->pub.data;
	size_t from = (size_t)(index_ + length) * a->esize;
	size_t to = (size_t)index_ * a->esize;
	size_t end = (size_t)a->pub.len * a->esize;
	while (from < end) { d[to++] = d[from++]; }
	a->pub.len -= length;
	return array;
}
gchar *g_array_free(GArray *array, gboolean free_segment) {
	VArray *a = (VArray *)array;
	gchar *seg = a->pub.data;
	if (free_segment) { free(seg); seg = NULL; }
	free(a);
	return seg;
}

/* ---------------- GString ---------------- */
GString *g_string_new(const gchar *init) {
	GString *s = malloc(sizeof(GString));
	size_t n = init ? strlen(init) : 0;
	s->str = malloc(n + 1);
	for (size_t i = 0; i < n; i++) s->str[i] = init[i];
	s->str[n] = 0;
	s->len = n;
	s->allocated_len = n + 1;
	return s;
}
gchar *(g_string_free)(GString *string, gboolean free_segment) {
	if (string == NULL) return NULL; /* real glib: g_return_val_if_fail */
	gchar *seg = string->str;
	if (free_segment) { free(seg); seg = NULL; }
	free(string);
	return seg;
}
void g_string_printf(GString *string, const gchar *format, ...) {
	(void)format;
	free(string->str);
	size_t n = ND_u8("printf_len");
	__CPROVER_assume(n <= VERIF_PRINTF_MAX);
	string->str = malloc(n + 1);
	for (size_t i = 0; i < n; i++) {
		char c = (char)ND_u8("printf_ch");
		__CPROVER_assume(c != 0);
		string->str[i] = c;
	}
	string->str[n] = 0;
	string->len = n;
	string->allocated_len = n + 1;
}

/* ---------------- container lock tags (C10 obligation 2; -DVERIF_LOCK_TAGS) ----------------
 * The node state table is the library's only hash table: every access must hold bidib_node_state_table_mutex.
 * A GQueue created while that mutex is held is a per-node queue and inherits the tag; the three uplink queues are
 * tagged by the harness (verif_queue_tag).  Tags are checked only while verif_tags_armed (the harness arms them around
 * the library step, so that building the pre-state and reading the post-state are not flagged). */
bool verif_tags_armed;
#ifdef VERIF_LOCK_TAGS
#define TAG_CHECK(lock, what) do { if (verif_tags_armed && (lock) >= 0) __CPROVER_assert(verif_held(lock), "CONTRACT: " what " accessed without its guarding lock held"); } while (0)
#else
#define TAG_CHECK(lock, what) do { } while (0)
#endif

/* ---------------- GQueue ---------------- */
/* ring buffer: pop is O(1) (no shifting), so that the 128-entry uplink queues stay cheap */
typedef struct {
	GQueue pub;            /* only pub.length is meaningful */
	int tag;               /* guarding lock id, -1 = untagged */
	guint first;
	gpointer it[VERIF_QCAP];
} VQueue;
static guint v_wrap(guint i) { return i >= VERIF_QCAP ? i - VERIF_QCAP : i; }

GQueue *g_queue_new(void) {
	VQueue *q = malloc(sizeof(VQueue));
	q->pub.head = NULL; q->pub.tail = NULL; q->pub.length = 0; q->first = 0;
	q->tag = verif_held(L_NODE_TABLE) ? L_NODE_TABLE : -1;
	return &q->pub;
}
void g_queue_free(GQueue *queue) { free(queue); }
void g_queue_free_full(GQueue *queue, GDestroyNotify free_func) {
	VQueue *q = (VQueue *)queue;
	for (guint i = 0; i < VERIF_QCAP; i++) if (i < q->pub.length) free_func(q->it[v_wrap(q->first + i)]);
	free(queue);
}
void verif_queue_tag(GQueue *queue, int lock) { ((VQueue *)queue)->tag = lock; }
gboolean g_queue_is_empty(GQueue *queue) { TAG_CHECK(((VQueue *)queue)->tag, "queue"); return queue->length == 0; }
guint g_queue_get_length(GQueue *queue) { TAG_CHECK(((VQueue *)queue)->tag, "queue"); return queue->length; }
void g_queue_push_tail(GQueue *queue, gpointer data) {
	VQueue *q = (VQueue *)queue;
	TAG_CHECK(q->tag, "queue");
	__CPROVER_assume(q->pub.length < VERIF_QCAP); /* bound: queue capacity */
	q->it[v_wrap(q->first + q->pub.length)] = data;
	q->pub.length++;
}
gpointer g_queue_peek_head(GQueue *queue) {
	VQueue *q = (VQueue *)queue;
	TAG_CHECK(q->tag, "queue");
	return q->pub.length == 0 ? NULL : q->it[q->first];
}
gpointer g_queue_pop_head(GQueue *queue) {
	VQueue *q = (VQueue *)queue;
	TAG_CHECK(q->tag, "queue");
	if (q->pub.length == 0) return NULL;
	gpointer r = q->it[q->first];
	q->first = v_wrap(q->first + 1);
	q->pub.length--;
	return r;
}
static GList verif_find_cell;
GList *g_queue_find_custom(GQueue *queue, gconstpointer data, GCompareFunc func) {
	VQueue *q = (VQueue *)queue;
	TAG_CHECK(q->tag, "queue");
	for (guint i = 0; i < VERIF_QCAP; i++) {
		if (i < q->pub.length && func(q->it[v_wrap(q->first + i)], data) == 0) {
			verif_find_cell.data = q->it[v_wrap(q->first + i)];
			return &verif_find_cell;
		}
	}
	return NULL;
}
/* model accessor for harnesses (not glib API) */
gpointer verif_queue_nth(GQueue *queue, guint n) {
	VQueue *q = (VQueue *)queue;
	return q->it[v_wrap(q->first + n)];
}

/* ---------------- GHashTable ---------------- */
struct _GHashTable {
	GEqualFunc eq;
	gpointer key[VERIF_HCAP];
	gpointer val[VERIF_HCAP];
	gboolean used[VERIF_HCAP];
};
guint g_str_hash(gconstpointer v) { (void)v; return 0; }
#ifdef VERIF_KEY4
/* loop-free strcmp()==0 for NUL-terminated keys of at most 4 bytes incl. the terminator (the node
 * table's address keys: "at the latest index 3 must be 0x00"); a key that is not terminated
 * within 4 bytes is a MODEL failure, never silently accepted */
static gboolean v_str_equal(gconstpointer pa, gconstpointer pb) {
	const char *a = pa, *b = pb;
	if (a[0] != b[0]) return FALSE;
	if (a[0] == 0) return TRUE;
	if (a[1] != b[1]) return FALSE;
	if (a[1] == 0) return TRUE;
	if (a[2] != b[2]) return FALSE;
	if (a[2] == 0) return TRUE;
	if (a[3] != b[3]) return FALSE;
	__CPROVER_assert(a[3] == 0, "MODEL: hash key longer than 3 address bytes (precondition: index 3 is 0)");
	return TRUE;
}
#else
static gboolean v_str_equal(gconstpointer a, gconstpointer b) { return strcmp(a, b) == 0; }
#endif
gboolean (g_str_equal)(gconstpointer a, gconstpointer b) { return v_str_equal(a, b); }
GHashTable *g_hash_table_new(GHashFunc h, GEqualFunc e) {
	(void)h;
	GHashTable *t = malloc(sizeof(struct _GHashTable));
	t->eq = e;
	for (int i = 0; i < VERIF_HCAP; i++) { t->used[i] = FALSE; t->key[i] = NULL; t->val[i] = NULL; }
	return t;
}
void g_hash_table_destroy(GHashTable *t) { free(t); }
gpointer g_hash_table_lookup(GHashTable *t, gconstpointer key) {
	TAG_CHECK(L_NODE_TABLE, "node state table");
	for (int i = 0; i < VERIF_HCAP; i++) {
		if (t->used[i] && v_str_equal(t->key[i], key)) return t->val[i];
	}
	return NULL;
}
gboolean g_hash_table_insert(GHashTable *t, gpointer key, gpointer value) {
	TAG_CHECK(L_NODE_TABLE, "node state table");
	for (int i = 0; i < VERIF_HCAP; i++) {
		if (t->used[i] && v_str_equal(t->key[i], key)) { t->val[i] = value; return FALSE; }
	}
	for (int i = 0; i < VERIF_HCAP; i++) {
		if (!t->used[i]) { t->used[i] = TRUE; t->key[i] = key; t->val[i] = value; return TRUE; }
	}
	__CPROVER_assume(0); /* bound: table capacity */
	return TRUE;
}
guint g_hash_table_size(GHashTable *t) {
	guint n = 0;
	for (int i = 0; i < VERIF_HCAP; i++) if (t->used[i]) n++;
	return n;
}
typedef struct { GHashTable *t; int pos; } VIter;
void g_hash_table_iter_init(GHashTableIter *iter, GHashTable *t) {
	VIter *it = (VIter *)iter; it->t = t; it->pos = -1;
}
gboolean g_hash_table_iter_next(GHashTableIter *iter, gpointer *key, gpointer *value) {
	TAG_CHECK(L_NODE_TABLE, "node state table");
	VIter *it = (VIter *)iter;
	for (int i = 0; i < VERIF_HCAP; i++) {
		if (i > it->pos && it->t->used[i]) {
			it->pos = i;
			if (key) *key = it->t->key[i];
			if (value) *value = it->t->val[i];
			return TRUE;
		}
	}
	it->pos = VERIF_HCAP;
	return FALSE;
}
void g_hash_table_iter_remove(GHashTableIter *iter) {
	VIter *it = (VIter *)iter;
	if (it->pos >= 0 && it->pos < VERIF_HCAP) it->t->used[it->pos] = FALSE;
}

/* model API for harness state builders: a GArray over a caller-provided (typed) block */
GArray *verif_garray_wrap(void *data, guint esize, guint cap) {
	VArray *a = malloc(sizeof(VArray));
	a->pub.data = data;
	a->pub.len = 0;
	a->esize = esize;
	a->cap = cap;
	return &a->pub;
}
