/* libyaml event API model (real <yaml.h> types).
 *
 * yaml_parser_parse delivers a script of at most VERIF_YAML_K events chosen by the solver, then reports a parse
 * error (return 0), which is what libyaml does at a syntax error / truncated file.  Event types are arbitrary but
 * WELL NESTED (libyaml guarantees that every *_END matches the innermost open *_START); scalar values are drawn from
 * the harness dictionary verif_yaml_dict[] (keywords of the section under test, well- and ill-formed numbers,
 * duplicates) or are a fresh symbolic string of at most 2 characters.
 * Mode B (VERIF_YAML_SCRIPTED): the harness lays out the event types (verif_yaml_types[]) and only the scalar
 * values are symbolic / chosen.
 * libyaml's own scanner (bytes -> events) is trusted, not encoded.
 */
#include <yaml.h>
#include <stdlib.h>
#include <string.h>
#include "verif.h"

#ifndef VERIF_YAML_K
#define VERIF_YAML_K 6
#endif
/* harness: number of dictionary words, and copy word c (NUL-terminated) into dst */
int verif_yaml_dict_size(void);
void verif_yaml_word(int c, char *dst);
#ifndef VERIF_YAML_WORDMAX
#define VERIF_YAML_WORDMAX 17
#endif
int verif_yaml_pos;                 /* events delivered so far */
int verif_yaml_open_events;         /* events not yet deleted */
#ifdef VERIF_YAML_SCRIPTED
extern const int verif_yaml_types[];
extern const int verif_yaml_script_n;
const char *verif_yaml_scalar(int pos);   /* harness: value of the scalar at script position pos */
#endif
static int depth;
static unsigned char kind[8];       /* 1 = sequence, 2 = mapping */

int yaml_parser_initialize(yaml_parser_t *parser) { (void)parser; return 1; }
void yaml_parser_set_input_file(yaml_parser_t *parser, FILE *file) { (void)parser; (void)file; }
void yaml_parser_delete(yaml_parser_t *parser) { (void)parser; }

static char *v_dup(const char *s) {
	size_t n = 0; while (s[n]) n++;
	char *d = malloc(n + 1);
	for (size_t i = 0; i <= n; i++) d[i] = s[i];
	return d;
}

int yaml_parser_parse(yaml_parser_t *parser, yaml_event_t *event) {
	(void)parser;
	event->type = YAML_NO_EVENT;
	event->data.scalar.value = NULL;
#ifdef VERIF_YAML_SCRIPTED
	if (verif_yaml_pos >= verif_yaml_script_n) return 0;
	event->type = (yaml_event_type_t)verif_yaml_types[verif_yaml_pos];
	if (event->type == YAML_SCALAR_EVENT) event->data.scalar.value = (yaml_char_t *)v_dup(verif_yaml_scalar(verif_yaml_pos));
#else
	if (verif_yaml_pos >= VERIF_YAML_K) return 0;
	if (ND_bool("yaml_error")) { verif_yaml_pos = VERIF_YAML_K; return 0; }
	uint8_t t = ND_u8("yaml_type");
	__CPROVER_assume(t >= YAML_STREAM_START_EVENT && t <= YAML_MAPPING_END_EVENT);
	if (t == YAML_SEQUENCE_START_EVENT || t == YAML_MAPPING_START_EVENT) {
		__CPROVER_assume(depth < 7);
		kind[depth++] = t == YAML_SEQUENCE_START_EVENT ? 1 : 2;
	} else if (t == YAML_SEQUENCE_END_EVENT) {
		__CPROVER_assume(depth > 0 && kind[depth - 1] == 1); depth--;
	} else if (t == YAML_MAPPING_END_EVENT) {
		__CPROVER_assume(depth > 0 && kind[depth - 1] == 2); depth--;
	}
	event->type = (yaml_event_type_t)t;
	if (t == YAML_SCALAR_EVENT) {
		uint8_t c = ND_u8("yaml_scalar_choice");
		int n = verif_yaml_dict_size();
		__CPROVER_assume(c <= n);
		char *s = malloc(VERIF_YAML_WORDMAX + 1);
		if (c == n) {
			s[0] = (char)ND_u8("yaml_c0"); s[1] = (char)ND_u8("yaml_c1"); s[2] = 0;
			if (s[0] == 0) s[1] = 0;
		} else {
			verif_yaml_word(c, s);
		}
		event->data.scalar.value = (yaml_char_t *)s;
	}
#endif
	verif_yaml_pos++;
	verif_yaml_open_events++;
	return 1;
}
void yaml_event_delete(yaml_event_t *event) {
	if (event->type == YAML_SCALAR_EVENT && event->data.scalar.value != NULL) {
		free(event->data.scalar.value);
		event->data.scalar.value = NULL;
	}
	verif_yaml_open_events--;
}
/* the parsers' nesting context when the unit is entered (harness sets it: e.g. inside a mapping of a sequence) */
void verif_yaml_enter(int seqs_and_maps[], int n) { depth = 0; for (int i = 0; i < n; i++) kind[depth++] = (unsigned char)seqs_and_maps[i]; }
