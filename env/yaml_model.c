/* libyaml event API model (real <yaml.h> types).
 *
 * yaml_parser_parse delivers a script of at most VERIF_YAML_K events chosen by the solver, then reports a parse
 * error (return 0), which is what libyaml does at a syntax error / truncated file.  Event types are arbitrary but
 * WELL NESTED (libyaml guarantees that every *_END matches the innermost open *_START); scalar values are drawn from
 * the harness dictionary verif_yaml_dict[] (keywords of the section under test, well- and ill-formed numbers,
 * duplicates) or are a fresh symbolic string of at most 2 characters.
 * Mode B (VERIF_YAML_SCRIPTED): the harness lays out the event types (verif_yaml_types[]) and only the scalar
 * values are symbolic / chosen.
 * libyaml's own scanner (bytes -> events) is trusted, not encoded.
 */
#include <yaml.h>
#include <stdlib.h>
#include <string.h>
#include "verif.h"

#ifndef VERIF_YAML_K
#define VERIF_YAML_K 6
#endif
/* harness: number of dictionary words, and copy word c (NUL-terminated) into dst */
int verif_yaml_dict_size(void);
void verif_yaml_word(int c, char *dst);
#ifndef VERIF_YAML_WORDMAX
#define VERIF_YAML_WORDMAX 17
#endif
int verif_yaml_pos;                 /* events delivered so far */
int verif_yaml_open_events;         /* events not yet deleted */
int verif_yaml_choice_log[16] = {-1, -1, -1, -1, -1, -1, -1, -1, -1, -1, -1, -1, -1, -1, -1, -1};   /* shape mode: dictionary index per scalar event */
#ifdef VERIF_YAML_SCRIPTED
extern int verif_yaml_types[VERIF_YAML_LEN];
extern const int verif_yaml_script_n;
const char *verif_yaml_scalar(int pos);   /* harness: value of the scalar at script position pos */
#endif
static int depth;
static unsigned char kind[8];       /* 1 = sequence, 2 = mapping */

int yaml_parser_initialize(yaml_parser_t *parser) { (void)parser; return 1; }
void yaml_parser_set_input_file(yaml_parser_t *parser, FILE *file) { (void)parser; (void)file; }
void yaml_parser_delete(yaml_parser_t *parser) { (void)parser; }

static char *v_dup(const char *s) {
	size_t n = 0; while (s[n]) n++;
	char *d = malloc(n + 1);
	for (size_t i = 0; i <= n; i++) d[i] = s[i];
	return d;
}

int yaml_parser_parse(yaml_parser_t *parser, yaml_event_t *event) {
	(void)parser;
	event->type = YAML_NO_EVENT;
	event->data.scalar.value = NULL;
#ifdef VERIF_YAML_SCRIPTED
	/* Mode B/C: the harness lays out a concrete skeleton; at the single concrete position VERIF_YAML_MUT (if >= 0) a
	 * solver-chosen mutation is applied: 0 truncate (syntax error here), 1 arbitrary other event type, 2 arbitrary other
	 * scalar value, 3 event deleted, 4 event duplicated, 5 swapped with its successor */
	static int mut_kind = -1, script_pos, dup_done;
#ifndef VERIF_YAML_MUT
#define VERIF_YAML_MUT -1
#endif
	if (script_pos >= verif_yaml_script_n) return 0;
	int at = script_pos;
	if (script_pos == VERIF_YAML_MUT || (mut_kind == 5 && script_pos == VERIF_YAML_MUT + 1)) {
		if (mut_kind < 0) { mut_kind = ND_u8("mutation_kind"); __CPROVER_assume(mut_kind <= 5); }
		if (mut_kind == 0) { script_pos = verif_yaml_script_n; return 0; }
		if (mut_kind == 3 && script_pos == VERIF_YAML_MUT) { script_pos++; at = script_pos; if (script_pos >= verif_yaml_script_n) return 0; }
		if (mut_kind == 5) { at = (script_pos == VERIF_YAML_MUT) ? VERIF_YAML_MUT + 1 : VERIF_YAML_MUT; if (at >= verif_yaml_script_n) at = script_pos; }
	}
	event->type = (yaml_event_type_t)verif_yaml_types[at];
	bool mutated_here = (script_pos == VERIF_YAML_MUT);
	if (mutated_here && mut_kind == 1) {
		uint8_t t = ND_u8("yaml_type");
		__CPROVER_assume(t >= YAML_STREAM_START_EVENT && t <= YAML_MAPPING_END_EVENT && t != verif_yaml_types[at]);
		event->type = (yaml_event_type_t)t;
	}
	if (event->type == YAML_SCALAR_EVENT) {
		if (mutated_here && (mut_kind == 2 || mut_kind == 1)) {
			uint8_t c = ND_u8("yaml_scalar_choice");
			int n = verif_yaml_dict_size();
			__CPROVER_assume(c <= n);
			char *s = malloc(VERIF_YAML_WORDMAX + 1);
			if (c == n) { s[0] = (char)ND_u8("yaml_c0"); s[1] = (char)ND_u8("yaml_c1"); s[2] = 0; if (s[0] == 0) s[1] = 0; }
			else verif_yaml_word(c, s);
			event->data.scalar.value = (yaml_char_t *)s;
		} else {
			event->data.scalar.value = (yaml_char_t *)v_dup(verif_yaml_scalar(at));
		}
	}
	if (mutated_here && mut_kind == 4 && !dup_done) { dup_done = 1; } else { script_pos++; }
	verif_yaml_pos++;
	verif_yaml_open_events++;
	return 1;
#else
#ifdef VERIF_YAML_SHAPE
	/* shape mode: the event TYPES are a concrete list supplied by the query (one query per well-nested type sequence up
	 * to the stated length, enumerated by queries/C13.py); scalar contents stay symbolic; after the list: syntax error */
	extern const unsigned char verif_yaml_shape[];
	extern const int verif_yaml_shape_n;
	if (verif_yaml_pos >= verif_yaml_shape_n) return 0;
	uint8_t t = verif_yaml_shape[verif_yaml_pos];
#else
	if (verif_yaml_pos >= VERIF_YAML_K) return 0;
	if (ND_bool("yaml_error")) { verif_yaml_pos = VERIF_YAML_K; return 0; }
	uint8_t t = ND_u8("yaml_type");
	__CPROVER_assume(t >= YAML_STREAM_START_EVENT && t <= YAML_MAPPING_END_EVENT);
#endif
	if (t == YAML_SEQUENCE_START_EVENT || t == YAML_MAPPING_START_EVENT) {
		__CPROVER_assume(depth < 7);
		kind[depth++] = t == YAML_SEQUENCE_START_EVENT ? 1 : 2;
	} else if (t == YAML_SEQUENCE_END_EVENT) {
		__CPROVER_assume(depth > 0 && kind[depth - 1] == 1); depth--;
	} else if (t == YAML_MAPPING_END_EVENT) {
		__CPROVER_assume(depth > 0 && kind[depth - 1] == 2); depth--;
	}
	event->type = (yaml_event_type_t)t;
	if (t == YAML_SCALAR_EVENT) {
		uint8_t c = ND_u8("yaml_scalar_choice");
		int n = verif_yaml_dict_size();
		__CPROVER_assume(c <= n);
#ifdef VERIF_YAML_SHAPE_WORDS
		/* the query may also fix the WORD of a scalar event (dictionary index; -1 = chosen by the solver): a parser state
		 * machine whose state depends on the word read is only tractable with that word concrete */
		{ extern const signed char verif_yaml_shape_word[];
		  if (verif_yaml_shape_word[verif_yaml_pos] >= 0) c = (uint8_t)verif_yaml_shape_word[verif_yaml_pos]; }
#endif
#ifdef VERIF_YAML_DICT_ONLY
		__CPROVER_assume(c < n);
#endif
#ifdef VERIF_YAML_SHAPE
		if (verif_yaml_pos < 16) verif_yaml_choice_log[verif_yaml_pos] = c;
#endif
		char *s = malloc(VERIF_YAML_WORDMAX + 1);
		if (c == n) {
			s[0] = (char)ND_u8("yaml_c0"); s[1] = (char)ND_u8("yaml_c1"); s[2] = 0;
			if (s[0] == 0) s[1] = 0;
		} else {
			verif_yaml_word(c, s);
		}
		event->data.scalar.value = (yaml_char_t *)s;
	}
#endif
	verif_yaml_pos++;
	verif_yaml_open_events++;
	return 1;
}
void yaml_event_delete(yaml_event_t *event) {
	if (event->type == YAML_SCALAR_EVENT && event->data.scalar.value != NULL) {
		free(event->data.scalar.value);
		event->data.scalar.value = NULL;
	}
	verif_yaml_open_events--;
}
/* the parsers' nesting context when the unit is entered (harness sets it: e.g. inside a mapping of a sequence) */
void verif_yaml_enter(int seqs_and_maps[], int n) { depth = 0; for (int i = 0; i < n; i++) kind[depth++] = (unsigned char)seqs_and_maps[i]; }
