/* nondeterministic choice functions (CBMC build only) */
#include "verif.h"
#ifndef VERIF_REPLAY
unsigned char nondet_uchar(void);
unsigned short nondet_ushort(void);
unsigned int nondet_uint(void);
int nondet_int(void);
_Bool nondet_bool(void);
uint8_t ND_u8(const char *label) { (void)label; uint8_t v = nondet_uchar(); return v; }
uint16_t ND_u16(const char *label) { (void)label; uint16_t v = nondet_ushort(); return v; }
uint32_t ND_u32(const char *label) { (void)label; uint32_t v = nondet_uint(); return v; }
int ND_int(const char *label) { (void)label; int v = nondet_int(); return v; }
bool ND_bool(const char *label) { (void)label; bool v = nondet_bool(); return v; }
#endif
