/* libc pieces: byte-loop string functions (CBMC's built-ins with symbolic lengths are too
 * expensive), clock, sleep, syslog sinks. */
#include <stddef.h>
#include <stdlib.h>
#include <stdarg.h>
#include <time.h>
#include "verif.h"

long verif_now;

#ifndef VERIF_STRMAX
#define VERIF_STRMAX 8
#endif

size_t strlen(const char *s) {
	size_t n = 0;
	while (s[n] != 0) n++;
	return n;
}
int strcmp(const char *a, const char *b) {
	size_t i = 0;
	while (a[i] != 0 && a[i] == b[i]) i++;
	return (int)(unsigned char)a[i] - (int)(unsigned char)b[i];
}
int strncmp(const char *a, const char *b, size_t n) {
	size_t i = 0;
	if (n == 0) return 0;
	while (i < n - 1 && a[i] != 0 && a[i] == b[i]) i++;
	return (int)(unsigned char)a[i] - (int)(unsigned char)b[i];
}
char *strcpy(char *d, const char *s) {
	size_t i = 0;
	while ((d[i] = s[i]) != 0) i++;
	return d;
}
char *strdup(const char *s) {
	size_t n = strlen(s);
	char *d = malloc(n + 1);
	for (size_t i = 0; i <= n; i++) d[i] = s[i];
	return d;
}
char *strndup(const char *s, size_t n) {
	size_t l = 0;
	while (l < n) {
#ifndef VERIF_REPLAY
		/* a read outside the source object is reported once and ends the scan (keeps the loop bounded by the
		 * object size instead of by n) */
		if (!__CPROVER_r_ok(s + l, 1)) { __CPROVER_assert(0, "strndup reads outside its source object"); break; }
#endif
		if (s[l] == 0) break;
		l++;
	}
	char *d = malloc(l + 1);
	for (size_t i = 0; i < l; i++) d[i] = s[i];
	d[l] = 0;
	return d;
}
void *memcpy(void *d, const void *s, size_t n) {
	unsigned char *dd = d; const unsigned char *ss = s;
	for (size_t i = 0; i < n; i++) dd[i] = ss[i];
	return d;
}
void *memset(void *d, int c, size_t n) {
	unsigned char *dd = d;
	for (size_t i = 0; i < n; i++) dd[i] = (unsigned char)c;
	return d;
}
int memcmp(const void *a, const void *b, size_t n) {
	const unsigned char *aa = a, *bb = b;
	for (size_t i = 0; i < n; i++) {
		if (aa[i] != bb[i]) return (int)aa[i] - (int)bb[i];
	}
	return 0;
}

time_t time(time_t *t) { if (t) *t = verif_now; return verif_now; }
double difftime(time_t a, time_t b) { return (double)(a - b); }
int clock_gettime(clockid_t c, struct timespec *ts) {
	(void)c; ts->tv_sec = verif_now; ts->tv_nsec = 0; return 0;
}
int usleep(unsigned int us) {
	(void)us;
#ifdef VERIF_YIELD_SLEEP
	verif_yield(-1);
#endif
	return 0;
}
unsigned int sleep(unsigned int s) { (void)s; return 0; }

void syslog(int pri, const char *fmt, ...) { (void)pri; (void)fmt; }
void openlog(const char *ident, int opt, int fac) { (void)ident; (void)opt; (void)fac; }
void closelog(void) { }
int vsnprintf(char *s, size_t n, const char *fmt, va_list ap) {
	(void)fmt; (void)ap; if (n > 0) s[0] = 0; return 0;
}
int sprintf(char *s, const char *fmt, ...) { (void)fmt; s[0] = 0; return 0; }

/* ---- strtol for bases 10 and 16 (the only ones the library uses): leading white space, optional sign, optional
 * 0x/0X prefix for base 16, saturating like glibc ---- */
#include <limits.h>
static int v_digit(char c, int base) {
	int d = -1;
	if (c >= '0' && c <= '9') d = c - '0';
	else if (c >= 'a' && c <= 'f') d = c - 'a' + 10;
	else if (c >= 'A' && c <= 'F') d = c - 'A' + 10;
	return (d >= 0 && d < base) ? d : -1;
}
long strtol(const char *s, char **end, int base) {
	size_t i = 0;
	while (s[i] == ' ' || (s[i] >= '\t' && s[i] <= '\r')) i++;
	bool neg = false;
	if (s[i] == '+' || s[i] == '-') { neg = s[i] == '-'; i++; }
	if (base == 16 && s[i] == '0' && (s[i + 1] == 'x' || s[i + 1] == 'X') && v_digit(s[i + 2], 16) >= 0) i += 2;
	size_t start = i;
	unsigned long acc = 0; bool sat = false;
	while (v_digit(s[i], base) >= 0) {
		unsigned long d = (unsigned long)v_digit(s[i], base);
		if (acc > ((unsigned long)LONG_MAX - d) / (unsigned long)base) sat = true; else acc = acc * (unsigned long)base + d;
		i++;
	}
	if (i == start) { if (end) *end = (char *)s; return 0; }
	if (end) *end = (char *)&s[i];
	if (sat) return neg ? LONG_MIN : LONG_MAX;
	return neg ? -(long)acc : (long)acc;
}
/* files: fopen succeeds or fails (solver's choice); content comes from the yaml model */
#include <stdio.h>
static FILE verif_file;
int verif_fopen_calls, verif_fclose_calls;
FILE *fopen(const char *path, const char *mode) { (void)path; (void)mode; verif_fopen_calls++; return ND_bool("fopen_ok") ? &verif_file : NULL; }
int fclose(FILE *f) { (void)f; verif_fclose_calls++; return 0; }
int snprintf(char *s, size_t n, const char *fmt, ...) { (void)fmt; if (n > 0) s[0] = 0; return 0; }

/* Repository units of queries that go through goto-instrument are compiled with -Dfree=verif_free: cbmc 6.11 aborts
 * with an internal invariant violation (casting_replace_symbol.cpp:93) when a goto binary written by goto-instrument
 * contains the ADDRESS of the library function free (e.g. g_queue_free_full(q, free)).  Same semantics, one more call. */
void verif_free(void *p) { free(p); }
