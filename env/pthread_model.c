/* pthread model = lock monitor + thread-handle monitor.
 * Locks are identified by address (the library's 15 global locks); everything else is L_OTHER.
 * No real blocking: acquiring a lock that is already held in a conflicting mode by the
 * (single) running virtual thread is a self-deadlock and counted in verif_lock_errors.
 * Compiled for CBMC only; native replays link the real pthread for the library but this
 * file is still used (it then shadows libpthread's symbols in the replay executable).
 */
#include <pthread.h>
#include "verif.h"

extern pthread_rwlock_t bidib_trains_rwlock, bidib_boards_rwlock;
extern pthread_mutex_t trackstate_accessories_mutex, trackstate_peripherals_mutex,
	trackstate_segments_mutex, trackstate_reversers_mutex, trackstate_trains_mutex,
	trackstate_boosters_mutex, trackstate_track_outputs_mutex,
	bidib_node_state_table_mutex, bidib_send_buffer_mutex, bidib_uplink_queue_mutex,
	bidib_uplink_error_queue_mutex, bidib_uplink_intern_queue_mutex, bidib_action_id_mutex;

int verif_rd[L_COUNT];
int verif_wr[L_COUNT];
bool verif_edge[L_COUNT][L_COUNT];
int verif_lock_errors;
unsigned verif_acq_count[L_COUNT];
unsigned verif_rel_count[L_COUNT];

static int lock_id(const void *p) {
	if (p == (const void *)&bidib_trains_rwlock) return L_TRAINS_RW;
	if (p == (const void *)&bidib_boards_rwlock) return L_BOARDS_RW;
	if (p == (const void *)&trackstate_accessories_mutex) return L_ACCESSORIES;
	if (p == (const void *)&trackstate_peripherals_mutex) return L_PERIPHERALS;
	if (p == (const void *)&trackstate_segments_mutex) return L_SEGMENTS;
	if (p == (const void *)&trackstate_reversers_mutex) return L_REVERSERS;
	if (p == (const void *)&trackstate_trains_mutex) return L_TS_TRAINS;
	if (p == (const void *)&trackstate_boosters_mutex) return L_BOOSTERS;
	if (p == (const void *)&trackstate_track_outputs_mutex) return L_TRACK_OUTPUTS;
	if (p == (const void *)&bidib_node_state_table_mutex) return L_NODE_TABLE;
	if (p == (const void *)&bidib_send_buffer_mutex) return L_SEND_BUFFER;
	if (p == (const void *)&bidib_uplink_queue_mutex) return L_UPLINK;
	if (p == (const void *)&bidib_uplink_error_queue_mutex) return L_UPLINK_ERR;
	if (p == (const void *)&bidib_uplink_intern_queue_mutex) return L_UPLINK_INTERN;
	if (p == (const void *)&bidib_action_id_mutex) return L_ACTION_ID;
	return L_OTHER;
}

bool verif_all_free(void) {
	if (verif_order_errors != 0) return false;
	for (int i = 0; i < L_COUNT; i++) {
		if (verif_rd[i] != 0 || verif_wr[i] != 0) return false;
	}
	return true;
}
unsigned verif_max_acq(void) {
	unsigned m = 0;
	for (int i = 0; i < L_COUNT; i++) if (verif_acq_count[i] > m) m = verif_acq_count[i];
	return m;
}
void verif_rmw_released(int id);
void verif_rmw_reset(void);
bool verif_held(int id) { return verif_rd[id] > 0 || verif_wr[id] > 0; }
bool verif_held_w(int id) { return verif_wr[id] > 0; }
void verif_locks_reset(void) {
	for (int i = 0; i < L_COUNT; i++) {
		verif_rd[i] = 0; verif_wr[i] = 0; verif_acq_count[i] = 0; verif_rel_count[i] = 0;
		for (int j = 0; j < L_COUNT; j++) verif_edge[i][j] = false;
	}
	verif_lock_errors = 0; verif_order_errors = 0; verif_recursive_reads = 0;
	verif_rmw_reset();
}

/* the global nesting order as practised by the library (bidib_init_mutexes acquires the locks in this very
 * sequence): trains rwlock -> track-state mutexes (accessories, peripherals, segments, reversers, trains,
 * boosters, track outputs) -> boards rwlock -> send-order mutex (L_OTHER) -> node table ->
 * send buffer -> uplink queues -> action id (leaf).  A lock may only be acquired while locks of strictly lower rank are held;
 * the one exception is a read acquisition of an rwlock the thread already holds for reading (legal with
 * glibc's reader-preferring default, counted in verif_recursive_reads). */
static const int verif_rank[L_COUNT] = {
	[L_TRAINS_RW] = 0, [L_ACCESSORIES] = 1, [L_PERIPHERALS] = 2, [L_SEGMENTS] = 3, [L_REVERSERS] = 4,
	[L_TS_TRAINS] = 5, [L_BOOSTERS] = 6, [L_TRACK_OUTPUTS] = 7, [L_BOARDS_RW] = 8, [L_ACTION_ID] = 16,
	[L_OTHER] = 10, [L_NODE_TABLE] = 11, [L_SEND_BUFFER] = 12, [L_UPLINK] = 13, [L_UPLINK_ERR] = 14,
	[L_UPLINK_INTERN] = 15,
};
int verif_order_errors;
int verif_recursive_reads;
static void note_edges_mode(int id, bool read) {
	for (int h = 0; h < L_COUNT; h++) {
		if (verif_rd[h] > 0 || verif_wr[h] > 0) {
			verif_edge[h][id] = true;
			if (h == id && read && verif_wr[h] == 0) { verif_recursive_reads++; continue; }
			if (verif_rank[h] >= verif_rank[id]) {
				verif_order_errors++;
				__CPROVER_assert(0, "LOCK: acquisition against the global lock order (potential deadlock)");
			}
		}
	}
}
static void note_edges(int id) { note_edges_mode(id, false); }

int pthread_mutex_init(pthread_mutex_t *m, const pthread_mutexattr_t *a) {
	(void)a; int id = lock_id(m); verif_wr[id] = 0; verif_rd[id] = 0; return 0;
}
int pthread_mutex_destroy(pthread_mutex_t *m) { (void)m; return 0; }
int pthread_mutex_lock(pthread_mutex_t *m) {
	int id = lock_id(m);
#ifdef VERIF_YIELD
	verif_yield(id);
#endif
	if (verif_wr[id] != 0) {
		verif_lock_errors++;
		__CPROVER_assert(0, "LOCK: mutex relocked by its holder (self-deadlock)");
	}
	note_edges(id);
	verif_wr[id] = 1;
	verif_acq_count[id]++;
	return 0;
}
int pthread_mutex_unlock(pthread_mutex_t *m) {
	int id = lock_id(m);
	if (verif_wr[id] != 1) {
		verif_lock_errors++;
		__CPROVER_assert(0, "LOCK: unlock of a mutex that is not held");
	}
	verif_wr[id] = 0;
	verif_rel_count[id]++;
	verif_rmw_released(id);
	return 0;
}
int pthread_rwlock_init(pthread_rwlock_t *l, const pthread_rwlockattr_t *a) {
	(void)a; int id = lock_id(l); verif_wr[id] = 0; verif_rd[id] = 0; return 0;
}
int pthread_rwlock_destroy(pthread_rwlock_t *l) { (void)l; return 0; }
int pthread_rwlock_rdlock(pthread_rwlock_t *l) {
	int id = lock_id(l);
#ifdef VERIF_YIELD
	verif_yield(id);
#endif
	if (verif_wr[id] != 0) {
		verif_lock_errors++;
		__CPROVER_assert(0, "LOCK: rdlock while holding the same rwlock for writing (self-deadlock)");
	}
	note_edges_mode(id, true);
	verif_rd[id]++;
	verif_acq_count[id]++;
	return 0;
}
int pthread_rwlock_wrlock(pthread_rwlock_t *l) {
	int id = lock_id(l);
#ifdef VERIF_YIELD
	verif_yield(id);
#endif
	if (verif_wr[id] != 0 || verif_rd[id] != 0) {
		verif_lock_errors++;
		__CPROVER_assert(0, "LOCK: wrlock while holding the same rwlock (self-deadlock)");
	}
	note_edges(id);
	verif_wr[id] = 1;
	verif_acq_count[id]++;
	return 0;
}
int pthread_rwlock_unlock(pthread_rwlock_t *l) {
	int id = lock_id(l);
	if (verif_wr[id] == 1) {
		verif_wr[id] = 0;
	} else if (verif_rd[id] > 0) {
		verif_rd[id]--;
	} else {
		verif_lock_errors++;
		__CPROVER_assert(0, "LOCK: unlock of a rwlock that is not held");
	}
	verif_rel_count[id]++;
	verif_rmw_released(id);
	return 0;
}

/* ---- atomicity of read-modify-write on the train state (C10: no lost update) ----
 * A command that reads the tracked train state and later writes a value derived from it back must keep other
 * writers out in between: either the trains rwlock in WRITE mode or trackstate_trains_mutex has to be held
 * continuously from the read to the write-back (all train-state writers take one of them).  The epoch counts how
 * often that exclusive protection was given up; the generated shims (queries/gen_contracts.py) mark the epoch at the
 * read accessor and compare it at the write-back. */
static unsigned verif_excl_epoch;
static int verif_rmw_epoch = -1;
static bool train_excl(void) { return verif_wr[L_TRAINS_RW] > 0 || verif_wr[L_TS_TRAINS] > 0; }
void verif_rmw_released(int id) {
	if ((id == L_TRAINS_RW || id == L_TS_TRAINS) && !train_excl()) verif_excl_epoch++;
}
void verif_rmw_mark(void) { if (train_excl()) verif_rmw_epoch = (int)verif_excl_epoch; }
void verif_rmw_check(void) {
	if (verif_rmw_epoch >= 0)
		__CPROVER_assert(verif_rmw_epoch == (int)verif_excl_epoch && train_excl(),
		                 "ATOMIC: train state read and written back under one continuous exclusive lock "
		                 "(bidib_trains_rwlock in write mode or trackstate_trains_mutex)");
}
void verif_rmw_reset(void) { verif_rmw_epoch = -1; }

/* ---- threads: recorded, never run ---- */
int verif_threads_created;
int verif_threads_joined;
int verif_thread_errors;
void *(*verif_thread_entry[VERIF_MAX_THREADS])(void *);
void *verif_thread_arg[VERIF_MAX_THREADS];
int verif_thread_state[VERIF_MAX_THREADS];

int pthread_create(pthread_t *t, const pthread_attr_t *a, void *(*fn)(void *), void *arg) {
	(void)a;
	__CPROVER_assert(verif_threads_created < VERIF_MAX_THREADS, "MODEL: thread table capacity");
	int k = verif_threads_created++;
	verif_thread_entry[k] = fn;
	verif_thread_arg[k] = arg;
	verif_thread_state[k] = 1;
	*t = (pthread_t)(k + 1);
	return 0;
}
int pthread_join(pthread_t t, void **ret) {
	(void)ret;
	unsigned long k = (unsigned long)t;
	if (k == 0 || k > (unsigned long)verif_threads_created || verif_thread_state[k - 1] != 1) {
		verif_thread_errors++;
		__CPROVER_assert(0, "THREAD: join of a handle that is not a live, unjoined thread");
		return 3;
	}
	verif_thread_state[k - 1] = 2;
	verif_threads_joined++;
	return 0;
}
